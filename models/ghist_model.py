"""Deterministic duck-typed git repository and reference models for ak.ghist (C06, C07).

Three parts:

1. ``FakeRepo`` & co. -- an in-memory "git repository" exposing exactly the attributes ak.ghist reads
   (``remotes['origin'].refs[*].name``, ``iter_refs(*prefixes)``, ``commit(hexsha)``, ``git_dir``;
   commits: ``parents hexsha message committed_date author.name tree``; ``tree / path`` -> blob with
   ``hexsha`` and ``data_stream``).  Nothing is random: hexsha = 11 decimal digits of the integer id +
   sha1 filler, committed_date = BASE_TIME + 10 * intid, one fixed author per id.

2. The reachability reference for C06 (written from the property statement): which commits each branch
   must list, under which builds, what belongs under "not merged"; ``c06_judge`` compares an observed
   report structure with it.

3. The reference for C07: which parent builds first ship a report-related component build
   (``c07_expected``), and the ordering / cycle oracle for repository collections (``deps_cyclic``).

``selftest()`` replays the histories and the commit lists spelled out in tests/test_ghist.py.
"""

import contextlib
import io
import json
import re
import signal
from hashlib import sha1

from ak import ghist

BASE_TIME = 1_700_000_000      # all dates = BASE_TIME + 10*intid: inside the 1-day / 30-day windows
SEARCH_TEXT = "BUG-7"
NOT_BUILT = "8888.8888.8888"
NOT_MERGED = "9999.9999.9999"


class Hang(Exception):
    """The code under test used more CPU time than any explored case can need (endless loop)."""


def _on_vtalrm(_sig, _frame):
    raise Hang("CPU time limit exceeded")


@contextlib.contextmanager
def cpu_limit(seconds):
    """Watchdog on the CPU time of this process (ITIMER_VIRTUAL: immune to machine load)."""
    old = signal.signal(signal.SIGVTALRM, _on_vtalrm)
    signal.setitimer(signal.ITIMER_VIRTUAL, seconds)
    try:
        yield
    finally:
        signal.setitimer(signal.ITIMER_VIRTUAL, 0)
        signal.signal(signal.SIGVTALRM, old)


# =====================================================================================
# 1. fake repository
# =====================================================================================
class FakeAuthor:
    __slots__ = ("name",)

    def __init__(self, name):
        self.name = name


class FakeBlob:
    __slots__ = ("hexsha", "data")

    def __init__(self, contents):
        self.data = contents.encode() if isinstance(contents, str) else contents
        self.hexsha = sha1(b"blob:" + self.data).hexdigest()

    @property
    def data_stream(self):
        return io.BytesIO(self.data)


class FakeTree:
    __slots__ = ("files",)

    def __init__(self, files):
        self.files = {path: FakeBlob(text) for path, text in files.items()}

    def __truediv__(self, path):
        return self.files[path]          # KeyError when absent, like GitPython


_AUTHORS = ("A. Able", "B. Baker", "C. Charlie", "A Very Long Author Name Indeed")


def hexsha_of(repo_name, intid):
    return f"{intid:011d}" + sha1(f"{repo_name}:{intid}".encode()).hexdigest()[:29]


class FakeCommit:
    __slots__ = ("intid", "hexsha", "parents", "message", "committed_date", "author", "tree")

    def __init__(self, repo_name, intid, message, files, date_offset=None):
        self.intid = intid
        self.hexsha = hexsha_of(repo_name, intid)
        self.parents = []
        self.message = message
        # default: 10 s steps in id (= topological) order; otherwise an explicit offset in seconds (commit times may
        # run against the history and spread over days, always inside the 30-day window)
        self.committed_date = BASE_TIME + (10 * intid if date_offset is None else date_offset)
        self.author = FakeAuthor(_AUTHORS[intid % len(_AUTHORS)])
        self.tree = FakeTree(files)

    def __repr__(self):
        return f"FakeCommit({self.intid})"


class FakeRef:
    __slots__ = ("name",)

    def __init__(self, name):
        self.name = name


class FakeRemote:
    __slots__ = ("refs",)

    def __init__(self, refs):
        self.refs = refs


class FakeRepo:
    """spec = {"name": str,
               "commits": [[intid, [parent ids], message, [tags], {path: text}(, time offset in seconds)], ...]  (any order),
               "branches": [[branch_name, head_intid], ...]}      branch_name e.g. "release/1.0", "master"
    """

    def __init__(self, spec):
        self.name = spec["name"]
        self.git_dir = f"/nonexistent/fake-git/{self.name}"
        self.commits = {}
        self.refs = {}                 # full ref name -> hexsha (insertion ordered)
        for intid, _parents, message, _tags, files, *rank in spec["commits"]:
            assert intid not in self.commits
            self.commits[intid] = FakeCommit(self.name, intid, message, files or {}, rank[0] if rank else None)
        for intid, parents, _m, tags, _f, *_rank in spec["commits"]:
            c = self.commits[intid]
            c.parents = [self.commits[p] for p in parents]
            for tag in tags or ():
                ref = "refs/tags/" + tag
                assert ref not in self.refs, f"duplicate tag {tag}"
                self.refs[ref] = c.hexsha
        names = []
        for branch, head in spec["branches"]:
            ref = "refs/remotes/origin/" + branch
            assert ref not in self.refs, f"duplicate branch {branch}"
            self.refs[ref] = self.commits[head].hexsha
            names.append("origin/" + branch)
        self.remotes = {"origin": FakeRemote([FakeRef(n) for n in sorted(names)])}
        self.by_hexsha = {c.hexsha: c for c in self.commits.values()}
        self.n_commit_calls = 0

    def commit(self, hexsha):
        self.n_commit_calls += 1
        return self.by_hexsha[hexsha]

    def iter_refs(self, *prefixes):
        for ref_name, hexsha in self.refs.items():
            if any(ref_name.startswith(p) for p in prefixes):
                yield ref_name, hexsha


class ModelProjectRepo(ghist.ProjectRepo):
    """ProjectRepo for the fake repositories: standard build tags, DEPENDS = json {component: "X.Y.Z"}."""

    # build tags that do not name a release line (build_<n>_master_success) take major.minor from this file
    _SAVED_BUILD_NUM_SOURCES = ["VERSION"]

    def _read_saved_build_num_from_file(self, blob, path):
        major, minor = (int(x) for x in blob.data_stream.read().decode().strip().split("."))
        return ghist.BuildNumData(major, minor, None)

    def read_components_from_file(self, v_file_path, blob):
        assert v_file_path == "DEPENDS"
        d = json.load(blob.data_stream)
        return {k: tuple(int(x) for x in v.split(".")) for k, v in d.items()}


class ParentProjectRepo(ModelProjectRepo):
    _COMPONENTS_VERSIONS_LOCATIONS = {"lib": "DEPENDS"}


class ParentProjectRepo2(ModelProjectRepo):
    _COMPONENTS_VERSIONS_LOCATIONS = {"lib": "DEPENDS", "lib2": "DEPENDS"}


def tag_name(build, major, minor):
    return f"build_{build}_release_{major}_{minor}_success"


_TAG_RE = re.compile(r"build_(\d+)_release_(\d+)_(\d+)_success$")


def tag_label(tag):
    """'build_17_release_5_4_success' -> '5.4.17' (the documented meaning of a standard build tag)."""
    m = _TAG_RE.match(tag)
    return f"{int(m.group(2))}.{int(m.group(3))}.{int(m.group(1))}"


# =====================================================================================
# branch order (statement: numeric-aware name order, master last)
# =====================================================================================
def branch_sort_key(name):
    if name in ("master", "main"):
        return (1, ())
    items = []
    for chunk in re.split(r"[/._\-\s]+", name):
        if not chunk:
            continue
        items.append((0, int(chunk), "") if chunk.isdigit() else (1, 0, chunk))
    return (0, tuple(items))


def sorted_branches(names):
    return sorted(names, key=branch_sort_key)


# =====================================================================================
# 2. C06 reference
# =====================================================================================
# matching / non matching message flavours; chosen by commit id so that every flavour occurs
_MATCH_MSG = ("BUG-7 fix of c{i}", "also BUG-77 c{i}", "c{i} subject\n\nbody mentions BUG-7 here", "xBUG-7x c{i}")
_OTHER_MSG = ("work on c{i}", "bug-7 lower case c{i}", "BUG-8 c{i}", "BUG- 7 c{i}\nBUG\n-7")


# search texts with regular-expression metacharacters: selection is plain substring containment. The 'matching'
# flavours contain the text literally (some of them do not match it when it is read as a regular expression), the
# 'other' flavours do not contain it (some of them match it as a regular expression)
TEXT_FLAVOURS = {
    "REL-1.5": (("REL-1.5 fix c{i}", "see REL-1.5.2 of c{i}"), ("REL-145 c{i}", "REL-1x5 and rel-1.5 c{i}")),
    "parser (core)": (("parser (core): handle c{i}", "in parser (core) c{i}"), ("parser core: rename c{i}", "parser(core) c{i}")),
    "a+b": (("a+b summed c{i}", "calc a+b+c c{i}"), ("aab c{i}", "ab and a b c{i}")),
    "[x]": (("[x] done c{i}", "mark [x] c{i}"), ("x c{i}", "[ x ] c{i}")),
}


def c06_message(i, matching, text=None):
    if text is not None and text != SEARCH_TEXT:
        fl = TEXT_FLAVOURS[text][0 if matching else 1]
        return fl[i % len(fl)].format(i=i)
    return (_MATCH_MSG if matching else _OTHER_MSG)[i % 4].format(i=i)


def c06_tag(i):
    return tag_name(100 + i, 3, 4)


def c06_repo_spec(case, name="comp_1"):
    """case = {"parents": [[...] per commit 1..n], "heads": [[branch, id], ...], "tags": [ids], "match": [ids],
               "dates": [rank of the commit time per commit] (optional; default: increasing with the id),
               "step": seconds per rank unit (optional, default 600)}"""
    tags, match = set(case["tags"]), set(case["match"])
    dates = case.get("dates")
    step = case.get("step", 600)
    text = case.get("text")
    commits = []
    for i, ps in enumerate(case["parents"], start=1):
        commits.append([i, list(ps), c06_message(i, i in match, text), [c06_tag(i)] if i in tags else [], {}]
                       + ([dates[i - 1] * step] if dates else []))
    return {"name": name, "commits": commits, "branches": [list(b) for b in case["heads"]]}


def reach_masks(parents):
    """parents[i-1] = parent ids of commit i (ids smaller than i) -> list r with r[i] = bitmask of ancestors-or-self."""
    r = [0] * (len(parents) + 1)
    for i, ps in enumerate(parents, start=1):
        m = 1 << i
        for p in ps:
            m |= r[p]
        r[i] = m
    return r


def bits(mask):
    out, i = [], 0
    while mask:
        if mask & 1:
            out.append(i)
        mask >>= 1
        i += 1
    return out


def c06_expected(parents, heads, tags, match, text_match=None):
    """Reference: -> list (in sorted branch order) of dicts
       {branch, head, reach, lower, builds: [ids], label: {build: str}, nm: set, where: {m: set(minimal containing builds)}}
    """
    r = reach_masks(parents)
    tags, match = set(tags), set(match)
    hd = dict((b, h) for b, h in heads)
    out = []
    lower = 0
    for name in sorted_branches(hd):
        h = hd[name]
        R = r[h]
        fresh = R & ~lower
        builds = [c for c in bits(fresh) if c in tags or c == h]
        where = {}
        for m in match:
            if not (R >> m) & 1:
                continue
            cont = [b for b in builds if (r[b] >> m) & 1]
            where[m] = {b for b in cont if not any(b2 != b and (r[b] >> b2) & 1 for b2 in cont)}
        nm = {m for m in match if (lower >> m) & 1 and not (R >> m) & 1}
        out.append({"branch": name, "head": h, "reach": R, "lower": lower, "builds": builds,
                    "nm": nm, "where": where, "head_inside_lower": bool((lower >> h) & 1)})
        lower |= R
    return out


def observe_rgraph(rgraph):
    """-> [[branch_name, [[kind, label, build_commit_id|None, [printable commit ids]], ...]], ...] as the report orders them."""
    res = []
    for rb in rgraph.branches:
        builds = []
        for b in rb.get_rbuilds_list():
            if b.build_type == b.FAKE_NOT_MERGED or b.rcommit is None:
                kind, cid = "not-merged", None
            else:
                kind, cid = "build", b.rcommit.commit.intid
            builds.append([kind, str(b.build_num), cid,
                           [rc.commit.intid for rc in b.get_printable_rcommits()]])
        res.append([rb.branch_name, builds])
    return res


_ESC_RE = re.compile(r"\x1b\[[0-9;:]*[A-Za-z]")
_COMMIT_LINE = re.compile(r"^(\d{11}) \d{4}-\d\d-\d\d \d\d:\d\d:\d\d ")
_BUILD_LINE = re.compile(r"^  (\S.*?)(?: \(\d{4}-\d\d-\d\d \d\d:\d\d:\d\d\))?(?: / (.*))?$")


def parse_printed(text):
    """Printed report -> {repo_id: [[branch, [[label, [commit ids], [included-at strings], [bump strings]], ...]], ...]}."""
    text = _ESC_RE.sub("", text)
    repos = {}
    cur_repo = cur_branch = cur_build = None
    for line in text.split("\n"):
        if not line.strip():
            continue
        m = re.match(r"^==== repo (\S+) ====$", line)
        if m:
            cur_repo = repos.setdefault(m.group(1), [])
            cur_name = m.group(1)
            cur_branch = cur_build = None
            continue
        if cur_repo is None:
            raise ValueError(f"line outside a repo section: {line!r}")
        m = _COMMIT_LINE.match(line)
        if m:
            if cur_build is None:
                raise ValueError(f"commit line outside a build: {line!r}")
            cur_build[1].append(int(m.group(1)))
            continue
        if line.startswith(cur_name + " ") and line.endswith(":") and not line.startswith(" "):
            cur_branch = [line[len(cur_name) + 1:-1], []]
            cur_repo.append(cur_branch)
            cur_build = None
            continue
        if line.startswith("  ") and not line.startswith("   "):
            m = _BUILD_LINE.match(line)
            if not m or cur_branch is None:
                raise ValueError(f"unparseable build line: {line!r}")
            cur_build = [m.group(1), [], [m.group(2)] if m.group(2) else [], []]
            cur_branch[1].append(cur_build)
            continue
        stripped = line.strip()
        if stripped.startswith("/ ") and cur_build is not None:
            cur_build[2].append(stripped[2:])
            continue
        if "=" in stripped and cur_build is not None:
            cur_build[3].append(stripped)
            continue
        raise ValueError(f"unparseable line: {line!r}")
    return repos


def printed_label(kind, label):
    if kind == "not-merged":
        return "- not merged -"
    if label == NOT_BUILT:
        return "- not built -"
    return label


def c06_judge(parents, heads, tags, match, observed, expected=None, label_of=None):
    """Compare an observed report structure (observe_rgraph) with the reference.
    -> list of (signature_suffix, message, observed_detail, expected_detail); empty = property holds here."""
    exp = expected if expected is not None else c06_expected(parents, heads, tags, match)
    tags, match = set(tags), set(match)
    problems = []
    by_name = {e["branch"]: e for e in exp}
    want_order = [e["branch"] for e in exp][::-1]

    names = [b[0] for b in observed]
    if len(set(names)) != len(names) or any(n not in by_name for n in names):
        problems.append(("branch-set", "report has a duplicated or unknown branch", names, want_order))
        return problems
    if names != [n for n in want_order if n in names]:
        problems.append(("branch-order", "branches are not in reverse numeric-aware order with master first",
                         names, [n for n in want_order if n in names]))

    obs_by_name = {b[0]: b[1] for b in observed}
    for ei, e in enumerate(exp):
        name = e["branch"]
        prev = exp[ei - 1] if ei else None
        qual = "head-inside-lower-branch" if e["head_inside_lower"] else "fresh-head"
        blds = obs_by_name.get(name, [])
        count = {}
        under_nm = {}
        for kind, label, cid, printable in blds:
            for m in printable:
                count[m] = count.get(m, 0) + 1
                if m not in match:
                    problems.append(("non-matching-commit-listed",
                                     f"{name}: commit {m} does not match the search text but is listed under {label}",
                                     [label, m], None))
            if kind == "not-merged":
                for m in printable:
                    under_nm[m] = under_nm.get(m, 0) + 1
                    if m not in match:
                        continue
                    if (e["reach"] >> m) & 1:
                        problems.append((f"reachable-commit-under-not-merged/{qual}",
                                         f"{name}: matching commit {m} is reachable from the branch head "
                                         f"{e['head']} but is printed under '- not merged -'",
                                         {"branch": name, "not_merged": printable}, {"not_merged": sorted(e["nm"])}))
                    elif m not in e["nm"]:
                        problems.append(("foreign-commit-under-not-merged",
                                         f"{name}: commit {m} is not part of any lower-sorted branch but is under '- not merged -'",
                                         {"branch": name, "not_merged": printable}, {"not_merged": sorted(e["nm"])}))
                continue
            if not printable:
                continue                    # headings that list nothing are implementation-only
            # a real build heading that lists something
            if cid not in e["builds"]:
                problems.append(("listed-under-non-build",
                                 f"{name}: commits {printable} are listed under commit {cid}, which is not a build of "
                                 f"this branch (builds: {e['builds']})", [cid, printable], e["builds"]))
                continue
            if label_of is not None:
                want_label = label_of(cid) if cid in tags else NOT_BUILT
            else:
                want_label = tag_label(c06_tag(cid)) if cid in tags else NOT_BUILT
            if label != want_label:
                problems.append(("build-label", f"{name}: build at commit {cid} is shown as {label}",
                                 label, want_label))
            for m in printable:
                if m not in match:
                    continue
                if not (e["reach"] >> m) & 1:
                    problems.append(("unreachable-commit-under-build",
                                     f"{name}: commit {m} is not reachable from the head but listed under build {cid}",
                                     [cid, m], None))
                elif cid not in e["where"].get(m, ()):
                    problems.append(("commit-under-wrong-build",
                                     f"{name}: commit {m} is listed under build {cid}; the earliest containing "
                                     f"build(s): {sorted(e['where'].get(m, ()))}", [cid, m], sorted(e["where"].get(m, ()))))
        for m, where in e["where"].items():
            c = count.get(m, 0)
            if c > 1:
                problems.append(("commit-listed-twice", f"{name}: matching commit {m} is listed {c} times",
                                 blds, None))
            if where and c == 0:
                problems.append((f"commit-missing/{qual}",
                                 f"{name}: matching commit {m} is contained in build(s) {sorted(where)} but is not listed",
                                 blds, sorted(where)))
            if not where and c > 0 and not under_nm.get(m):
                problems.append(("commit-listed-without-build",
                                 f"{name}: matching commit {m} is listed although no build of this branch contains it",
                                 blds, None))
        for m in e["nm"]:
            c = under_nm.get(m, 0)
            if c == 0:
                # class of the failure: does the branch sorted immediately before this one list the commit at all?
                prev_lists = any(m in pr for _k, _l, _c, pr in obs_by_name.get(prev["branch"], []))
                q2 = "general" if prev_lists else "previous-branch-does-not-list-it"
                problems.append((f"unmerged-commit-missing-from-not-merged/{q2}",
                                 f"{name}: matching commit {m} is in a lower-sorted branch, not reachable from head "
                                 f"{e['head']}, but not printed under '- not merged -'", blds, sorted(e["nm"])))
            elif c > 1 or count.get(m, 0) > 1:
                problems.append(("commit-listed-twice", f"{name}: unmerged commit {m} is listed {count.get(m)} times",
                                 blds, None))
    return problems


def c06_judge_printed(observed, printed_repo):
    """The printed report must show the same commits under the same headings (order included)."""
    want = [[name, [[printed_label(kind, label), list(pr)] for kind, label, _cid, pr in blds]]
            for name, blds in observed]
    got = [[name, [[b[0], b[1]] for b in blds]] for name, blds in printed_repo]
    if want != got:
        return [("printed-report-differs", "printed report does not list the report data", got, want)]
    return []


def c06_features(parents, heads, tags, match, exp):
    """Measured structural features of one history (vacuity counters)."""
    f = set()
    n = len(parents)
    if any(len(p) == 2 for p in parents):
        f.add("merge")
    if sum(1 for p in parents if not p) > 1:
        f.add("several-roots")
    hs = [h for _b, h in heads]
    if len(set(hs)) < len(hs):
        f.add("heads-coincide")
    r = reach_masks(parents)
    tags = set(tags)
    for e in exp:
        if e["head_inside_lower"]:
            f.add("head-inside-other-branch")
            if any((e["reach"] >> m) & 1 for m in match):
                f.add("head-inside-other-branch+matching-reachable")
        if e["nm"]:
            f.add("not-merged-expected")
        if e["head"] in tags and not e["head_inside_lower"]:
            f.add("tagged-head")
        if e["head"] not in tags and not e["head_inside_lower"] and e["where"]:
            f.add("not-built-head")
        tb = [b for b in e["builds"] if b in tags]
        for i, a in enumerate(tb):
            for b in tb[i + 1:]:
                if not (r[a] >> b) & 1 and not (r[b] >> a) & 1:
                    f.add("parallel-tagged-sub-branches")
                    for c in e["builds"]:
                        if c in tags and len(parents[c - 1]) == 2 and (r[c] >> a) & 1 and (r[c] >> b) & 1 and c not in (a, b):
                            f.add("tag-on-merge-of-built-sub-branches")
        if any(len(w) > 1 for w in e["where"].values()):
            f.add("several-earliest-builds")
        if e["lower"] and any((e["lower"] >> m) & 1 and (e["reach"] >> m) & 1 for m in match) and not e["head_inside_lower"]:
            f.add("lower-branch-commit-merged-into-build")
    _ = n
    return f


def c06_nontrivial(match, exp):
    """Some matching commit concerns at least two branches (reached by two heads, or reached by a lower
    branch and owed a 'not merged' line by a higher one)."""
    for m in match:
        k = sum(1 for e in exp if (e["reach"] >> m) & 1 or m in e["nm"])
        if k >= 2:
            return True
    return False


def enumerate_dags(n):
    """All parent assignments for commits 1..n: commit i has 0, 1 or 2 (ordered, distinct) parents among 1..i-1."""
    def choices(i):
        out = [()]
        for p in range(1, i):
            out.append((p,))
        for p in range(1, i):
            for q in range(1, i):
                if p != q:
                    out.append((p, q))
        return out

    def rec(i, acc):
        if i > n:
            yield [list(x) for x in acc]
            return
        for ch in choices(i):
            acc.append(ch)
            yield from rec(i + 1, acc)
            acc.pop()
    yield from rec(1, [])


def subsets(items):
    items = list(items)
    for mask in range(1 << len(items)):
        yield [x for k, x in enumerate(items) if (mask >> k) & 1]


# =====================================================================================
# 3. C07 reference
# =====================================================================================
# optional time levels of C07 scenarios: component commit at level k is committed at k * 2 days, parent commit at
# level k at k * 2 days + 1.5 days, i.e. half a day before component level k+1 (inside the 1-day component window
# of a build at level k+1, outside the window of a build at level k+2)
C07_LEVEL = 2 * 86400
C07_PARENT_SHIFT = 86400 + 43200


def pin_commit(pin):
    """A pin is a component commit id c (its first = smallest build tag) or [c, 1] (its second build tag)."""
    return pin[0] if isinstance(pin, (list, tuple)) else pin


def pin_rank(pin):
    return pin[1] if isinstance(pin, (list, tuple)) else 0


def c07_version(comp, pin):
    """Version string of a component build: commit c carries build number 2c, and 2c+1 when it was built twice."""
    c = pin_commit(pin)
    maj = comp["major"][str(c)] if isinstance(comp["major"], dict) else comp["major"]
    minor = comp["minors"][c - 1] if comp.get("minors") else 0     # "minors": VERSION file of each commit says maj.minor
    return f"{maj}.{minor}.{2 * c + pin_rank(pin)}"


def c07_versions(comp):
    """All existing component builds as pins, in (commit, tag) order."""
    two = set(comp.get("tags2", ()))
    out = []
    for c in sorted(comp["tags"]):
        out.append(c)
        if c in two:
            out.append([c, 1])
    return out


def c07_comp_spec(comp, name="lib"):
    """comp = {"parents": [...], "heads": [[branch, id]...], "tags": [ids], "tags2": [ids built twice] (optional),
               "match": [ids], "major": {str(id): int} | int}"""
    tags, match, two = set(comp["tags"]), set(comp["match"]), set(comp.get("tags2", ()))
    assert two <= tags
    commits = []
    for i, ps in enumerate(comp["parents"], start=1):
        maj = comp["major"][str(i)] if isinstance(comp["major"], dict) else comp["major"]
        tg = []
        files = {}
        if comp.get("minors"):
            # tags that do not encode the version; major.minor is saved in the VERSION file of the built commit
            files["VERSION"] = f"{maj}.{comp['minors'][i - 1]}"
            mk = lambda n: f"build_{n}_master_success"   # noqa: E731
        else:
            mk = lambda n: tag_name(n, maj, 0)   # noqa: E731
        if i in tags:
            tg.append(mk(2 * i))
            if i in two:
                tg.append(mk(2 * i + 1))
        commits.append([i, list(ps), c06_message(i, i in match), tg, files]
                       + ([comp["levels"][i - 1] * C07_LEVEL] if comp.get("levels") else []))
    return {"name": name, "commits": commits, "branches": [list(b) for b in comp["heads"]]}


def matching_for_text(n, match, text):
    """Commits 1..n whose message (as generated from the SEARCH_TEXT matching set ``match``) contains ``text``."""
    match = set(match)
    return [i for i in range(1, n + 1) if text in c06_message(i, i in match)]


def c07_parent_tag_label(c):
    return f"5.0.{c}"


def c07_parent_spec(par, comp, name="app", comp2=None):
    """par = {"parents": [...], "heads": [...], "tags": [ids], "match": [ids], "pins": [component commit id per commit]}"""
    tags, match = set(par["tags"]), set(par["match"])
    commits = []
    for i, ps in enumerate(par["parents"], start=1):
        pin = par["pins"][i - 1]
        deps = {"lib": pin if isinstance(pin, str) else c07_version(comp, pin)}
        if comp2 is not None:
            deps["lib2"] = c07_version(comp2, par["pins2"][i - 1])
        files = {"DEPENDS": json.dumps(deps)}
        commits.append([i, list(ps), c06_message(i, i in match), [tag_name(i, 5, 0)] if i in tags else [], files]
                       + ([par["levels"][i - 1] * C07_LEVEL + C07_PARENT_SHIFT] if par.get("levels") else []))
    return {"name": name, "commits": commits, "branches": [list(b) for b in par["heads"]]}


def c07_component_builds(comp):
    """Report-related component builds by the C06 reference: -> {(branch, build commit)}; None when some
    matching commit has several earliest builds (not the case for linear / forked components)."""
    exp = c06_expected(comp["parents"], comp["heads"], comp["tags"], comp["match"])
    res = set()
    for e in exp:
        for m, where in e["where"].items():
            if len(where) > 1:
                return None, exp
            for b in where:
                res.add((e["branch"], b))
    return res, exp


def c07_expected(comp, par, comp_builds, comp_exp):
    """-> (required, optional): dicts {(comp_branch, comp_build_commit): set((parent_branch, label, parent_commit))}.
    required: parent candidates that first ship the component build, the pinned version being a build of the same
              component branch; optional: the same via a pinned version of another component branch that
              contains the build's commit by reachability only (the statement does not settle that case)."""
    rc = reach_masks(comp["parents"])
    rp = reach_masks(par["parents"])
    comp_tags = set(comp["tags"])
    comp_tags2 = set(comp.get("tags2", ()))
    ptags = set(par["tags"])
    # component commit -> branch whose fresh region holds it
    comp_branch_of = {}
    lower = 0
    for e in comp_exp:
        for c in bits(e["reach"] & ~lower):
            comp_branch_of[c] = e["branch"]
        lower |= e["reach"]
    pexp = c06_expected(par["parents"], par["heads"], par["tags"], [])
    required, optional = {}, {}
    for (cbranch, cb) in comp_builds:
        req, opt = set(), set()
        for e in pexp:
            cands = e["builds"]               # fresh tagged commits and the fresh head
            for strict in (True, False):
                def ships(b):
                    pin = par["pins"][b - 1]
                    if isinstance(pin, str):
                        return False        # names no existing component build
                    pc = pin_commit(pin)
                    if pc not in comp_tags or (pin_rank(pin) and pc not in comp_tags2):
                        return False
                    if not (rc[pc] >> cb) & 1:
                        return False
                    return (comp_branch_of.get(pc) == cbranch) or not strict
                s = [b for b in cands if ships(b)]
                first = [b for b in s if not any(b2 != b and (rp[b] >> b2) & 1 for b2 in s)]
                for b in first:
                    item = (e["branch"], c07_parent_tag_label(b) if b in ptags else NOT_BUILT, b)
                    (req if strict else opt).add(item)
        required[(cbranch, cb)] = req
        optional[(cbranch, cb)] = opt - req
    return required, optional


def pin_le(a, b, comp_reach):
    """Version a is not newer than version b: a's commit is contained in b's, and on one commit the build
    number does not go down."""
    ca, cb = pin_commit(a), pin_commit(b)
    if ca == cb:
        return pin_rank(a) <= pin_rank(b)
    return bool((comp_reach[cb] >> ca) & 1)


def pins_monotone(par_parents, pins, comp_reach):
    """The pinned component build never decreases along a path (order = reachability in the component)."""
    for i, ps in enumerate(par_parents, start=1):
        for p in ps:
            if not pin_le(pins[p - 1], pins[i - 1], comp_reach):
                return False
    return True


def enumerate_pins(par_parents, versions, comp_reach):
    """All assignments commit -> component build (pins in ``versions``) that never decrease along an edge."""
    n = len(par_parents)
    pins = [None] * n

    def rec(i):
        if i == n:
            yield list(pins)
            return
        for v in versions:
            if all(pin_le(pins[p - 1], v, comp_reach) for p in par_parents[i]):
                pins[i] = v
                yield from rec(i + 1)
        pins[i] = None
    yield from rec(0)


def deps_cyclic(ids, deps):
    """deps = {id: set(ids it depends on)}; only dependencies on present ids count; self loops are cycles."""
    present = set(ids)
    state = {}

    def visit(u):
        state[u] = 1
        for v in sorted(deps.get(u, ())):
            if v not in present:
                continue
            if state.get(v) == 1:
                return True
            if v not in state and visit(v):
                return True
        state[u] = 2
        return False
    return any(u not in state and visit(u) for u in sorted(ids))


# =====================================================================================
# running the real code on fake repositories
# =====================================================================================
def run_single_repo(spec, text=SEARCH_TEXT, repo_id="comp_1", printed=True):
    """-> (observed structure, printed text or None, fake repo)."""
    fake = FakeRepo(spec)
    coll = ghist.ReposCollection({repo_id: ModelProjectRepo(repo_id, fake, "origin")})
    report = coll.make_report(text)
    (rid, rgraph), = report.data
    assert rid == repo_id
    return observe_rgraph(rgraph), (str(report) if printed else None), fake


def two_repo_collection(comp_spec, par_spec, order=("app", "lib")):
    lib = ModelProjectRepo("lib", FakeRepo(comp_spec), "origin")
    app = ParentProjectRepo("app", FakeRepo(par_spec), "origin")
    repos = {"app": app, "lib": lib}
    return ghist.ReposCollection({k: repos[k] for k in order})


def three_repo_collection(comp_spec, comp2_spec, par_spec, order=("app", "lib", "lib2")):
    repos = {"lib": ModelProjectRepo("lib", FakeRepo(comp_spec), "origin"),
             "lib2": ModelProjectRepo("lib2", FakeRepo(comp2_spec), "origin"),
             "app": ParentProjectRepo2("app", FakeRepo(par_spec), "origin")}
    return ghist.ReposCollection({k: repos[k] for k in order})


def run_two_repos(comp_spec, par_spec, text=SEARCH_TEXT, order=("app", "lib")):
    coll = two_repo_collection(comp_spec, par_spec, order)
    report = coll.make_report(text)
    return coll, report


# =====================================================================================
# self test: histories and expectations spelled out in tests/test_ghist.py
# =====================================================================================
def _mock_lines_to_spec(name, lines):
    """Same description language as tests/mock_git.py (subset used by the tests), deterministic objects."""
    commits, branches = {}, []
    prev, extra = None, []
    for line in reversed(lines):
        line = line.strip()
        if not line:
            continue
        if line.startswith("branch:"):
            branches.append([line[7:].strip()[len("origin/"):], prev])
            continue
        if line.startswith("-->"):
            extra.append(line[3:])
            continue
        chunks = [c.strip() for c in (line + "".join(reversed(extra))).split("|")]
        extra = []
        idc = chunks[0].split("<-", 1)
        intid = int(idc[0])
        parents = [int(x) for x in idc[1].split(",")] if len(idc) == 2 else ([prev] if prev is not None else [])
        msg, tags, files = None, [], {}
        for ch in chunks[1:]:
            if not ch:
                continue
            if ch.startswith("tags:"):
                tags = [t.strip() for t in ch[5:].split(",")]
            elif ch.startswith("file:"):
                _, path, contents = ch.split(":", 2)
                files[path.strip()] = contents
            else:
                msg = ch
        commits[intid] = [intid, parents, msg, tags, files]
        prev = intid
    return {"name": name, "commits": list(commits.values()), "branches": branches}


_T_MULTI = [
    "branch: origin/master",
    "340 | BUG-177",
    "330<-230, 320| merge",
    "320<-220| branch out |tags: build_4500_release_10_270_success",   # test: build_4500_master + VERSION 10.270
    "branch: origin/release/10.260",
    "240<-230, 140| merge|tags: build_4445_release_10_260_success",
    "230 | BUG-133|tags: build_4444_release_10_260_success",
    "225 | BUG-166",
    "220<-120 | first commit after branch",
    "branch: origin/release/10.250",
    "150 | BUG-155",
    "140 | BUG-144",
    "130 | BUG-133|tags: build_4304_release_10_250_success ",
    "120 | BUG-122|tags: build_4303_release_10_250_success",
    "110 | BUG-111",
    "15  | Initial Commit",
]
# (search text) -> {branch: [(label, [printable commits])]} exactly as asserted in TestSingleRepoMultyBranch
_T_MULTI_EXPECT = {
    "BUG-111": {"release/10.250": [("10.250.4303", [110])], "release/10.260": [("10.260.4444", [110])],
                "master": [("10.270.4500", [110])]},
    "BUG-133": {"release/10.250": [("10.250.4304", [130])],
                "release/10.260": [("10.260.4445", [130]), ("10.260.4444", [230])],
                "master": [(NOT_MERGED, [130]), (NOT_BUILT, [230])]},
    "BUG-144": {"release/10.250": [(NOT_BUILT, [140])], "release/10.260": [("10.260.4445", [140])],
                "master": [(NOT_MERGED, [140])]},
    "BUG-155": {"release/10.250": [(NOT_BUILT, [150])], "release/10.260": [(NOT_MERGED, [150])],
                "master": [(NOT_MERGED, [150])]},
    "BUG-166": {"release/10.260": [("10.260.4444", [225])], "master": [(NOT_BUILT, [225])]},
    "BUG-177": {"master": [(NOT_BUILT, [340])]},
    "BUG": {"release/10.250": [(NOT_BUILT, [150, 140]), ("10.250.4304", [130]), ("10.250.4303", [120, 110])],
            "release/10.260": [(NOT_MERGED, [150]), ("10.260.4445", [140, 130]), ("10.260.4444", [230, 225, 120, 110])],
            "master": [(NOT_MERGED, [150, 140, 130]), (NOT_BUILT, [340, 230, 225]), ("10.270.4500", [120, 110])]},
}
_T_SINGLE = [
    "branch: origin/master",
    "50 | BUG-555", "40 | BUG-444",
    "30 | BUG-333|tags: build_4304_release_10_250_success ",
    "20 | BUG-222|tags: build_4303_release_10_250_success",
    "10 | BUG-111", "5  | Initial Commit",
]
_T_SINGLE_EXPECT = {
    "BUG-111": {"master": [("10.250.4303", [10])]},
    "BUG-222": {"master": [("10.250.4303", [20])]},
    "BUG-444": {"master": [(NOT_BUILT, [40])]},
    "BUG-555": {"master": [(NOT_BUILT, [50])]},
    "BUG": {"master": [(NOT_BUILT, [50, 40]), ("10.250.4304", [30]), ("10.250.4303", [20, 10])]},
}
_T_INCL_PARENT = [
    'branch: origin/release/5.5',
    '590 |branch 5.5 head', '--> |file:DEPENDS:{"lib": "10.20.7"}',
    '550 |build 5.5.5', '--> |tags: build_5_release_5_5_success', '--> |file:DEPENDS:{"lib": "10.20.4"}',
    'branch: origin/release/5.4',
    '390<-10|branch 5.4 head', '--> |tags:build_47_release_5_4_success', '--> |file:DEPENDS:{"lib": "10.20.7"}',
    'branch: origin/release/5.3',
    '90|build 5|tags: build_5_release_5_3_success', '--> |file:DEPENDS:{"lib": "10.20.1"}',
    '10|build 3|tags: build_3_release_5_3_success', '--> |file:DEPENDS:{"lib": "10.10.1"}',
]
_T_INCL_COMP = [
    'branch: origin/master',
    '990 | final_build |tags: build_3090_release_10_130_success',
    'branch: origin/release/10.20',
    '190 | BUG-212 g |tags: build_9_release_10_20_success',
    '170 | BUG-212 f |tags: build_7_release_10_20_success',
    '150 | BUG-212 d |tags: build_5_release_10_20_success',
    '140 | no bug    |tags: build_4_release_10_20_success',
    '120 | BUG-212 b |tags: build_3_release_10_20_success',
    '110 | BUG-212 a |tags: build_2_release_10_20_success',
    '100 | some build |tags: build_1_release_10_20_success',
]
_T_INCL_EXPECT = {
    "10.20.2": {("app", "release/5.4", "5.4.47"), ("app", "release/5.5", "5.5.5")},
    "10.20.3": {("app", "release/5.4", "5.4.47"), ("app", "release/5.5", "5.5.5")},
    "10.20.5": {("app", "release/5.4", "5.4.47"), ("app", "release/5.5", NOT_BUILT)},
    "10.20.7": {("app", "release/5.4", "5.4.47"), ("app", "release/5.5", NOT_BUILT)},
    "10.20.9": set(),
}


def _renumber(spec, text):
    """Spec in the tests' language -> (parents, heads, tags, match, id maps) for the reference (ids 1..n topological)."""
    order = sorted(c[0] for c in spec["commits"])
    new = {old: k for k, old in enumerate(order, start=1)}
    byid = {c[0]: c for c in spec["commits"]}
    parents = [[new[p] for p in byid[old][1]] for old in order]
    tags = [new[old] for old in order if byid[old][3]]
    match = [new[old] for old in order if text in byid[old][2]]
    heads = [[b, new[h]] for b, h in spec["branches"]]
    return parents, heads, tags, match, new, {v: k for k, v in new.items()}


def _selftest_single(lines, expect, name):
    spec = _mock_lines_to_spec(name, lines)
    byid = {c[0]: c for c in spec["commits"]}
    for text, per_branch in expect.items():
        parents, heads, tags, match, new, old = _renumber(spec, text)
        exp = c06_expected(parents, heads, tags, match)
        # (a) the reference alone determines the lists asserted by the repository's tests
        for e in exp:
            want = per_branch.get(e["branch"], [])
            got = {}
            for m, where in e["where"].items():
                assert len(where) <= 1, (text, e["branch"], m, where)
                for b in where:
                    lab = tag_label(byid[old[b]][3][0].strip()) if byid[old[b]][3] else NOT_BUILT
                    got.setdefault(lab, set()).add(old[m])
            if e["nm"]:
                got[NOT_MERGED] = {old[m] for m in e["nm"]}
            assert got == {lab: set(ids) for lab, ids in want}, \
                f"C06 reference disagrees with tests/test_ghist.py for {text!r} {e['branch']}: {got} vs {want}"
        # (b) the real code on the deterministic fake repository gives the asserted lists, and the judge is silent
        observed, printed, _ = run_single_repo(spec, text=text)
        shown = {b: [(lab, pr) for _k, lab, _c, pr in blds if pr] for b, blds in observed}
        assert shown == {b: [(lab, ids) for lab, ids in v] for b, v in per_branch.items()}, \
            f"fake repository: real code gives {shown} for {text!r}, tests assert {per_branch}"
        obs_new = [[b, [[k, lab, (new[c] if c is not None else None), [new[m] for m in pr]]
                        for k, lab, c, pr in blds]] for b, blds in observed]
        probs = [p for p in c06_judge(parents, heads, tags, match, obs_new, exp) if p[0] != "build-label"]
        assert not probs, f"C06 judge alarms on a history of tests/test_ghist.py ({text!r}): {probs[:2]}"
        pp = parse_printed(printed)
        assert not c06_judge_printed(observed, pp["comp_1"]), f"printed report parse mismatch for {text!r}"


def selftest():
    assert sorted_branches(["master", "release/10.0", "release/2.0", "release/1.0"]) == \
        ["release/1.0", "release/2.0", "release/10.0", "master"]
    assert tag_label("build_17_release_5_4_success") == "5.4.17"
    _selftest_single(_T_SINGLE, _T_SINGLE_EXPECT, "component_1")
    _selftest_single(_T_MULTI, _T_MULTI_EXPECT, "component_1")

    # C07: included_at expectations of test_included_at_data_in_component
    cspec = _mock_lines_to_spec("lib", _T_INCL_COMP)
    pspec = _mock_lines_to_spec("app", _T_INCL_PARENT)
    cpar, cheads, ctags, cmatch, cnew, cold = _renumber(cspec, "BUG-212")
    ppar, pheads, ptags, _pm, pnew, pold = _renumber(pspec, "BUG-212")
    cby = {c[0]: c for c in cspec["commits"]}
    pby = {c[0]: c for c in pspec["commits"]}
    ver2commit = {tag_label(c[3][0].strip()): cnew[c[0]] for c in cspec["commits"] if c[3]}
    pins = []
    for o in sorted(pby):
        v = json.loads(pby[o][4]["DEPENDS"])["lib"]
        pins.append(ver2commit.get(v, v))          # unknown version stays a string: names no existing build
    comp = {"parents": cpar, "heads": cheads, "tags": ctags, "match": cmatch, "major": 10}
    par = {"parents": ppar, "heads": pheads, "tags": ptags, "match": [], "pins": pins}
    builds, cexp = c07_component_builds(comp)
    got_builds = {tag_label(cby[cold[b]][3][0].strip()) for br, b in builds if br == "release/10.20"}
    assert got_builds == set(_T_INCL_EXPECT), got_builds
    req, opt = c07_expected(comp, par, builds, cexp)
    for (br, b), items in req.items():
        ver = tag_label(cby[cold[b]][3][0].strip())
        if br == "master":
            assert ver == "10.130.3090" and not items
            continue
        got = set()
        for pbranch, _lab, pc in items:
            tg = pby[pold[pc]][3]
            got.add(("app", pbranch, tag_label(tg[0].strip()) if tg else NOT_BUILT))
        assert got == _T_INCL_EXPECT[ver], f"C07 reference disagrees with tests/test_ghist.py for {ver}: {got}"
        assert not opt[(br, b)]
    # the real code on the fake repositories reproduces the asserted included_at sets
    _coll, report = run_two_repos(cspec, pspec, text="BUG-212")
    rg = dict(report.data)
    seen = {}
    for rb in rg["lib"].branches:
        for b in rb.get_rbuilds_list():
            seen[str(b.build_num)] = {(str(x[0]), str(x[1]), str(x[2])) for x in b.included_at}
    for ver, want in _T_INCL_EXPECT.items():
        assert seen.get(ver) == want, f"fake repositories: included_at of {ver} is {seen.get(ver)}, tests assert {want}"
    parse_printed(str(report))
    assert deps_cyclic(["a", "b"], {"a": {"b"}, "b": {"a"}}) and not deps_cyclic(["a", "b"], {"a": {"b", "zz"}})
    assert deps_cyclic(["a"], {"a": {"a"}})
