"""Reference model for C19: which options a command of a multi-command ArgParser must accept.

Written from the property statement only:

  * an option added to the parser of command ``p`` is accepted by ``p`` and by every command that names
    ``p`` as a parent directly or transitively, and by no other command;
  * options added to the ArgParser itself, and the standard options, are accepted by every command;
  * argv that does not start with a command name is parsed as the default command (the explicitly
    given one, else the first declared real command).

A declaration is a list of ``parents`` index lists (parents of command i are indices < i), so every
declaration is acyclic by construction.
"""

import itertools


def all_dags(n):
    """Every parent assignment for n commands: parents[i] is any subset of range(i)."""
    per_node = []
    for i in range(n):
        subsets = []
        for mask in range(1 << i):
            subsets.append(tuple(j for j in range(i) if mask >> j & 1))
        per_node.append(subsets)
    for combo in itertools.product(*per_node):
        yield [list(p) for p in combo]


def internal_choices(n):
    """Every assignment of the internal ('!') flag leaving at least one real command."""
    for mask in range((1 << n) - 1):       # mask == all ones would leave no real command
        yield [bool(mask >> i & 1) for i in range(n)]


def ancestors(parents):
    """Transitive closure: anc[i] = set of all j reachable from i through parent references."""
    anc = []
    for i, ps in enumerate(parents):
        s = set()
        for p in ps:
            s.add(p)
            s |= anc[p]
        anc.append(s)
    return anc


def path_counts(parents):
    """paths[i][j] = number of distinct parent paths from i up to j (>= 2 means a shared ancestor)."""
    n = len(parents)
    paths = [[0] * n for _ in range(n)]
    for i, ps in enumerate(parents):
        for p in ps:
            paths[i][p] += 1
            for j in range(n):
                paths[i][j] += paths[p][j]
    return paths


def shape_features(parents, internal):
    paths = path_counts(parents)
    f = set()
    n = len(parents)
    if not any(parents):
        f.add("shape:no-edges")
    if any(len(ps) >= 2 for ps in parents):
        f.add("shape:multi-parent")
    if any(parents[p] for i in range(n) for p in parents[i]):
        f.add("shape:transitive")            # some command has a grand-parent
    if any(paths[i][j] >= 2 for i in range(n) for j in range(n)):
        f.add("shape:shared-ancestor")       # same ancestor reached through several parents
    roots = [i for i in range(n) if not parents[i]]
    if len(roots) >= 2 and any(parents):
        f.add("shape:forest")
    children = [sum(1 for ps in parents if i in ps) for i in range(n)]
    if any(c >= 2 for c in children):
        f.add("shape:fan-out")
    if any(internal):
        f.add("internal:some")
    if any(internal[p] for ps in parents for p in ps):
        f.add("internal:as-parent")
    if any(internal[i] and parents[i] for i in range(n)):
        f.add("internal:with-parents")
    if internal[0]:
        f.add("internal:first-declared")
    return f


def accepts(parents, cmd, owner):
    """Must command ``cmd`` accept the option added to the parser of ``owner``?"""
    return owner == cmd or owner in ancestors(parents)[cmd]


def default_command(internal, explicit):
    if explicit is not None:
        return explicit
    return next(i for i, flag in enumerate(internal) if not flag)


def selftest():
    # the tree of tests/test_cli_tools.py::test_multicmd_tree_structure:
    #   cmd1, !options, cmd2:cmd1,options, cmd3:cmd2, cmd4:cmd1
    parents = [[], [], [0, 1], [2], [0]]
    internal = [False, True, False, False, False]
    anc = ancestors(parents)
    assert anc[2] == {0, 1} and anc[3] == {0, 1, 2} and anc[4] == {0}
    # cmd3 accepts the options of cmd1, options, cmd2; cmd4 only cmd1's
    assert all(accepts(parents, 3, o) for o in (0, 1, 2, 3)) and not accepts(parents, 3, 4)
    assert accepts(parents, 4, 0) and not accepts(parents, 4, 1) and not accepts(parents, 4, 2)
    assert default_command(internal, None) == 0
    assert default_command([True, False, False], None) == 1
    assert "shape:shared-ancestor" not in shape_features(parents, internal)
    assert "shape:shared-ancestor" in shape_features([[], [0], [0], [1, 2]], [False] * 4)
    assert "shape:shared-ancestor" in shape_features([[], [0], [0, 1]], [False] * 3)
    assert sum(1 for _ in all_dags(4)) == 64 and sum(1 for _ in all_dags(5)) == 1024
    assert sum(1 for _ in internal_choices(4)) == 15
