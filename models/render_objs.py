"""Printable objects, colors configurations and the pristine-process reference for C10 / C13.

Everything here is *input construction* for the real implementation (imported from the tree under
test, see mc.core.bind_repo) plus the boring parts of the oracle:

  * CONF_SPECS / make_config       -- the colors configurations (default, two explicit maps, no_color)
  * palette classes                -- alternative palettes ("palette given as class / object")
  * build_object(name, shared)     -- the printable objects: pretty-printer result, PPTable with enum
                                      column + break-by + limits, PPRecordFmt records, a GHistReport of a
                                      fixed small history (own deterministic duck-typed git objects, no
                                      `random`), HCommand help of a small h_doc class
  * pristine(requests)             -- renders (object, configuration, how) each in its *own fresh
                                      interpreter* (this file run as a script) -> the reference renderings
  * strip_sgr / styled             -- an independent escape-sequence stripper / SGR reader (not the package's)

Run as a script:  python -B render_objs.py '<json request>'   (used by pristine()).
"""

import io
import json
import os
import re
import subprocess
import sys
import time
from hashlib import sha1

os.environ["TZ"] = "UTC"          # GHistReport prints datetime.fromtimestamp(): own the time zone
time.tzset()

HERE = os.path.dirname(os.path.abspath(__file__))

# --------------------------------------------------------------------------- escape sequences
_SGR = re.compile("\x1b\\[([0-9;:]*)m")
ESC = "\x1b"


def strip_sgr(text):
    """Remove every SGR sequence (both ';' and ':' parameter separators). Independent of ak."""
    return _SGR.sub("", text)


def styled(text):
    """text -> tuple of (char, style) as a terminal starting in default state would show it.

    style = tuple of the SGR parameter strings in force (reset by an empty / '0' parameter list).
    Two renderings with equal styled() are the same text in the same colors whatever the byte layout.
    """
    out = []
    style = ()
    pos = 0
    for m in _SGR.finditer(text):
        for ch in text[pos:m.start()]:
            out.append((ch, style if ch != "\n" else ()))
        pos = m.end()
        p = m.group(1)
        if p in ("", "0"):
            style = ()
        else:
            style = style + (p,)
    for ch in text[pos:]:
        out.append((ch, style if ch != "\n" else ()))
    return tuple(out)


# --------------------------------------------------------------------------- configurations
# Self-contained descriptions only: every reference to another syntax names a built-in syntax
# (TEXT, NAME, KEYWORD, NUMBER, OK, WARN, ERROR) or one defined in the same map, so that what a
# syntax resolves to does not depend on which components have registered their defaults yet.
_MAP_A = {
    "TEXT": "", "NAME": "CYAN:bold", "KEYWORD": "MAGENTA", "NUMBER": "RED:underline",
    "OK": "GREEN", "WARN": "YELLOW:bold", "ERROR": "MAGENTA:bold,underline",
    "RECORD": {"NUMBER": "BLUE", "KEYWORD": "KEYWORD:faint", "TITLE": "WHITE:bold", "COL_TITLE": "CYAN"},
    "TABLE": {"BORDER": "BLUE:bold", "WARN": "MAGENTA", "HEADER": "NAME:underline"},
    "GHIST": {"REPO": "WHITE:bold", "BRANCH": "YELLOW", "HASH": "MAGENTA", "HASH_NOT_MERGED": "RED:faint",
              "COMMIT_TIME": "CYAN", "COMMIT_NAME": "BLUE:bold", "VERSION": "GREEN:underline",
              "VER_NOT_BUILT": "YELLOW:blink", "VER_NOT_MERGED": "MAGENTA:crossed"},
    "HDOC": {"ATTR": "RED", "FUNC_NAME": "GREEN:bold", "TAG": "BLUE:underline", "WARN": "YELLOW"},
}
_MAP_B = {
    "TEXT": "g18", "NAME": "(5,2,0)", "KEYWORD": "141/g3", "NUMBER": "(0,4,4):bold",
    "OK": "46", "WARN": "208:blink", "ERROR": "196/(1,0,0):bold",
    "RECORD": {"NUMBER": "33/g2", "KEYWORD": "NUMBER:no_bold,faint", "TITLE": "(5,5,0):underline",
               "COL_TITLE": "g23/17"},
    "TABLE": {"BORDER": "g9", "WARN": "201", "HEADER": "15/(0,0,2):bold"},
    "GHIST": {"REPO": "51", "BRANCH": "(3,5,1)", "HASH": "g12", "HASH_NOT_MERGED": "240/52",
              "COMMIT_TIME": "(1,1,4)", "COMMIT_NAME": "178:faint", "VERSION": "87/g1",
              "VER_NOT_BUILT": "(5,0,0):underline", "VER_NOT_MERGED": "ERROR:no_bold"},
    "HDOC": {"ATTR": "(4,3,0)", "FUNC_NAME": "75:bold", "TAG": "g16", "WARN": "WARN:no_blink,bold"},
}
# Items that hang a modifier on a syntax which is itself a palette-registered *alias* of a built-in one
# ('HDOC.WARN' and 'TABLE.WARN' both alias 'WARN'); each item refers to a syntax registered by the same
# component, so what it resolves to does not depend on which other component was used first.
_MAP_C = {"HDOC": {"TAG": "HDOC.WARN:underline", "ATTR": "HDOC.WARN:faint"},
          "TABLE": {"BORDER": "TABLE.WARN:bold", "HEADER": "TABLE.WARN:crossed"}}
CONF_SPECS = {"D": (None, False), "A": (_MAP_A, False), "B": (_MAP_B, False), "N": (_MAP_A, True),
              "C": (_MAP_C, False)}
SPEC_OBJECTS = {}          # spec -> objects it is restricted to (none: the global config affects every object)
COLORED_SPECS = ("D", "A", "B")


def make_config(spec):
    from ak.color import ColorsConfig
    init, no_color = CONF_SPECS[spec]
    init = json.loads(json.dumps(init)) if init is not None else None   # private copy
    return ColorsConfig(init, no_color=no_color)


# --------------------------------------------------------------------------- palette classes
_PAL = None


def palettes():
    """Alternative palette classes (created once per process; their class-level caches are part of
    the world the harness resets)."""
    global _PAL
    if _PAL is None:
        from ak.color import ConfColor
        from ak.ppobj import PPTable, PPEnumFieldType, PrettyPrinter, PPRecordFmt
        from ak.ghist import GHistReport

        class AltEnumPalette(PPEnumFieldType.EnumPalette):
            value = ConfColor("NUMBER")
            name_good = ConfColor("OK")
            name_warn = ConfColor("WARN")

        class AltTablePalette(PPTable.TablePalette):
            border = ConfColor("TABLE.WARN")
            header = ConfColor("NAME")
            SUB_PALETTES_MAP = {PPEnumFieldType.EnumPalette: AltEnumPalette}

        class AltPPPalette(PrettyPrinter.PPPalette):
            name = ConfColor("KEYWORD")
            number = ConfColor("WARN")

        class AltGHistPalette(GHistReport.GHistPalette):
            hash = ConfColor("GHIST.VERSION")
            repo = ConfColor("ERROR")

        class AltRecordPalette(PPRecordFmt.PPRecordPalette):
            number = ConfColor("OK")
            SUB_PALETTES_MAP = {PPEnumFieldType.EnumPalette: AltEnumPalette}

        # Palette classes produced by a factory: every call gives a *distinct* class with the same
        # __module__ / __qualname__ (as classes made in a loop, re-defined in a console or after a module
        # reload have) but other colors.
        def table_palette_factory(border, header, warn):
            class FactoryTablePalette(PPTable.TablePalette):
                pass
            return type(FactoryTablePalette)(
                "FactoryTablePalette", (PPTable.TablePalette,),
                {"border": ConfColor(border), "header": ConfColor(header), "warn": ConfColor(warn),
                 "__module__": __name__, "__qualname__": "palettes.<locals>.FactoryTablePalette"})

        def pp_palette_factory(name, number, keyword):
            return type(PrettyPrinter.PPPalette)(
                "FactoryPPPalette", (PrettyPrinter.PPPalette,),
                {"name": ConfColor(name), "number": ConfColor(number), "keyword": ConfColor(keyword),
                 "__module__": __name__, "__qualname__": "palettes.<locals>.FactoryPPPalette"})

        f_table = [table_palette_factory("ERROR", "KEYWORD", "OK"), table_palette_factory("NUMBER", "WARN", "NAME")]
        f_pp = [pp_palette_factory("ERROR", "OK", "WARN"), pp_palette_factory("NUMBER", "KEYWORD", "NAME")]
        for a, b in (f_table, f_pp):
            assert a is not b and a.__qualname__ == b.__qualname__ and a.__module__ == b.__module__

        _PAL = {"table": AltTablePalette, "pp": AltPPPalette, "ghist": AltGHistPalette,
                "recfmt": AltRecordPalette, "enum": AltEnumPalette,
                "factory": {"table": f_table, "pp": f_pp}}
    return _PAL


# --------------------------------------------------------------------------- a tiny deterministic git
class _Author:
    def __init__(self, name):
        self.name = name


class _Blob:
    def __init__(self, contents):
        self.hexsha = sha1(contents.encode()).hexdigest()
        self.data = contents.encode()

    @property
    def data_stream(self):
        return io.BytesIO(self.data)


class _Tree:
    def __init__(self, files):
        self.files = {p: _Blob(c) for p, c in files.items()}

    def __truediv__(self, path):
        return self.files[path]


class _Commit:
    _AUTHORS = ["V. Arnold", "Richard Feynman", "Linus B. Torvalds, the long one"]

    def __init__(self, repo_name, intid, parents, message, tags, tree):
        self.intid = intid
        t = f"{intid:05}"
        hs = sha1((repo_name + t).encode()).hexdigest()
        self.hexsha = hs[:1] + t + hs[6:]
        self.parents = parents
        self.message = message
        self.tags = list(tags)
        self.tree = _Tree(tree)
        self.committed_date = 1500000000 + 10 * intid      # all inside the 1-day window
        self.author = _Author(self._AUTHORS[intid // 10 % 3])


class _Ref:
    def __init__(self, name, commit):
        self.name = name
        self.head_commit = commit
        self.hexsha = commit.hexsha


class _Remote:
    def __init__(self, refs):
        self.refs = refs


class TinyGitRepo:
    """Duck-typed stand-in for git.Repo with exactly the attributes ak.ghist reads."""

    def __init__(self, name, commits, branches):
        self.name = name
        self.git_dir = "/gits/" + name
        self.commits = {}
        self.refs = {}
        for intid, parent_ids, message, tags, tree in commits:        # oldest first
            c = _Commit(name, intid, [self.commits[p] for p in parent_ids], message, tags, tree)
            self.commits[intid] = c
            for t in tags:
                self.refs["refs/tags/" + t] = _Ref(t, c)
        for branch, head in branches.items():
            self.refs["refs/remotes/" + branch] = _Ref("refs/remotes/" + branch, self.commits[head])
        remote = sorted((n[len("refs/remotes/"):], r) for n, r in self.refs.items()
                        if n.startswith("refs/remotes/origin/"))
        self.remotes = {"origin": _Remote([_Ref(n, r.head_commit) for n, r in remote])}
        self.by_hexsha = {c.hexsha: c for c in self.commits.values()}

    def commit(self, hexsha):
        return self.by_hexsha[hexsha]

    def iter_refs(self, *prefixes):
        for name, ref in self.refs.items():
            if any(name.startswith(p) for p in prefixes):
                yield name, ref.hexsha


def _ghist_report():
    from ak.ghist import ProjectRepo, ReposCollection, BuildNumData

    class StdRepo(ProjectRepo):
        _SAVED_BUILD_NUM_SOURCES = ["VERSION"]

        def _read_saved_build_num_from_file(self, blob, path):
            nums = [int(x) for x in blob.data_stream.read().decode().strip().split(".")]
            if len(nums) == 2:
                nums.append(None)
            return BuildNumData(*nums)

        def read_components_from_file(self, v_file_path, blob):
            return {k: [int(n) for n in v.split(".")] for k, v in json.load(blob.data_stream).items()}

    class ParentRepo(StdRepo):
        _COMPONENTS_VERSIONS_LOCATIONS = {"comp": "DEPENDS"}

    comp = TinyGitRepo("comp", [
        (5, [], "Initial", [], {}),
        (10, [5], "BUG-1 first", [], {}),
        (20, [10], "other", ["build_7_release_1_0_success"], {}),
        (30, [20], "BUG-1 second", [], {}),
        (40, [20], "BUG-1 on master only", ["build_9_master_success"], {}),
        (50, [40], "BUG-1 not built", [], {}),
    ], {"origin/release/1.0": 30, "origin/master": 50})
    par = TinyGitRepo("par", [
        (5, [], "Initial", [], {"DEPENDS": '{"comp": "1.0.6"}'}),
        (10, [5], "bump comp", ["build_3_release_2_0_success"], {"DEPENDS": '{"comp": "1.0.7"}'}),
        (20, [10], "BUG-1 in parent", [], {"DEPENDS": '{"comp": "1.0.7"}'}),
    ], {"origin/release/2.0": 20})
    rc = ReposCollection({"comp": StdRepo("comp", comp, "origin"), "par": ParentRepo("par", par, "origin")})
    return rc.make_report("BUG-1")


# --------------------------------------------------------------------------- h_doc class
def _hdoc_target():
    """A freshly decorated h_doc class (its HDocItem objects live only as long as the world)."""
    if True:
        from ak.color import CHText
        from ak.hdoc import h_doc, BoundMethodNotes

        @h_doc
        class Gadget:
            """A gadget with two methods.

            Longer description of the gadget.
            """
            _HDOC_ATTRS = [("size", "size of the gadget"), ("owner", "who owns it")]

            def __init__(self):
                self.size = 3
                self.owner = None

            def start(self, speed, *, force=False):
                """Start the gadget.

                Runs until stopped.

                #control #basic
                """

            def stop(self):
                """Stop it.

                #control
                """

            def report(self, fmt="short"):
                """Describe the state."""

            def _get_hdoc_method_notes(self, bound_method, _c):
                """#no_hdoc"""
                if bound_method.__name__ == "stop":
                    return BoundMethodNotes(False, CHText(_c.warn("n/a")), CHText(_c.warn("! not started !")))
                return BoundMethodNotes(True, CHText(_c.text("ok")), "")

    return Gadget


# --------------------------------------------------------------------------- printable objects
PP_DATA = {"name": "x", "n": 12, "f": 1.5, "flag": True, "none": None,
           "list": [1, 2, {"a": [], "b": "c"}], "d": {"k": "v", 3: 4}, "e": {},
           "nest": {"in": {"deep": [3], "k": None}, "z": 1}}       # multi-line containers nested two deep
# a second nested multi-line object printed by the *same* printer (the module level ak.ppobj.pp)
PP2_DATA = {"x": 1, "y": {"deep": [3], "z": {"k": [1, 2], "m": {"q": [True]}}}, "w": [[1], [2, [3, None]]]}

TABLE_RECORDS = [(1, "user 01", 10), (2, "user 02", 10), (3, "user 03", 999), (4, None, 20),
                 (5, "a|b+-", None), (6, "u6", 7), (7, "user 07", 7), (8, True, 5)]
TABLE_FMT = "id:1-4,name:3-6,status!,status/val:5,status/name:4-20,status/full:1-8;3:3"
SMALL_RECORDS = [(1, "ab", 10), (2, None, 999)]
SMALL_FMT = "id,name:1-4,status!,status/name:3-6"

OBJECT_KINDS = {"pp": "pp", "pp2": "pp", "tbl": "table", "tbl2": "table", "tbl_s": "table", "tblu": "table",
                "rec1": "recfmt", "rec2": "recfmt", "recr": "recfmt", "recu": "recfmt", "gh": "ghist", "hd": "hdoc"}
ITERABLE = ("pp", "pp2", "tbl", "tbl2", "tbl_s", "tblu", "gh")
# 'tblu' / 'recu' share the enum field type with the other tables / formatters of the world and contain
# values that are not in the enum: one longer (404404) and one shorter (4) than every enum value
UNKNOWN_RECORDS = [(1, "a", 404404), (2, "b", 4), (3, "c", 10), (4, "d", 999)]
UNKNOWN_FMT = "id,status,status/val:8,status/name:3-9"
HAS_PALETTE_CLASS = ("pp", "tbl", "tbl_s", "rec1", "gh")
HAS_FACTORY_CLASS = ("pp", "tbl")          # palette variants "f1" / "f2": first / second class of one factory
# format changes applied to the table 'tbl' during a history (limits section only: the columns are kept,
# i.e. cloned by the implementation); 'tbl2' is PPTable(records, fmt_obj=tbl.fmt), built at its first use
FMT_OPS = {"*": ";*", "1:1": ";1:1"}
FMT_STATES = (None, "*", "1:1")


def make_enum():
    from ak.ppobj import PPEnumFieldType
    return PPEnumFieldType({
        10: ("Ok status", "name_good"), 999: ("Error status", "name_warn"), 5: "Plain",
        7: ("Err", "error")})      # unknown values get the default ("<???>", "error") description


class Printable:
    """Uniform handle: result(**how) -> object with str(); lines(**how) -> iterator of line objects."""

    def __init__(self, name, kind, obj, extra=None):
        self.name, self.kind, self.obj, self.extra = name, kind, obj, extra

    def result(self, **kw):
        k = self.kind
        if k == "pp":
            return self.extra(self.obj, **kw)
        if k in ("table", "ghist"):
            return self.obj.ch_text(**kw)
        if k == "recfmt":
            return self.obj(self.extra, **kw)
        if k == "hdoc":
            assert not kw, "console help takes its colors from the global configuration only"
            from ak.hdoc import HCommand
            hcmd = self.extra if self.extra is not None else HCommand(HCommand._LEVEL_HH)
            return hcmd._make_help_text(self.obj)
        raise ValueError(k)

    def line_items(self, **kw):
        """Iterator over the items a consumer gets when it takes the rendering piece by piece, and the
        separator that joins their texts to the whole: lines of a CHTextResult, lines of the console help
        (the generator HCommand._make_help_text joins), columns of a formatted record."""
        k = self.kind
        if k == "hdoc":
            assert not kw
            from ak.hdoc import HCommand
            hcmd = self.extra if self.extra is not None else HCommand(HCommand._LEVEL_HH)
            return hcmd._gen_ch_lines(self.obj, HCommand._DFLT_FILT_ARG, hcmd.dets_level, False), "\n"
        if k == "recfmt":
            return iter(self.obj(self.extra, **kw).columns), " "
        return iter(self.result(**kw)), "\n"

    @property
    def palette_class(self):
        return palettes().get(self.kind)

    def factory_class(self, n):
        """n-th (1, 2) palette class of the factory for this kind of object."""
        return palettes()["factory"][self.kind][n - 1]


def build_object(name, shared):
    """Build printable `name`; `shared` is a dict holding what several printables of one world share
    (the enum field type, the record formatter, the report)."""
    from ak.ppobj import PPTable, PPRecordFmt
    kind = OBJECT_KINDS[name]
    if "enum" not in shared:
        shared["enum"] = make_enum()
    enum = shared["enum"]
    if name in ("pp", "pp2"):
        # both results come from the one shared, long-lived printer object every user of the package gets
        # (its module / instance state is part of what StateSnapshot restores between histories)
        from ak import ppobj
        data = json.loads(json.dumps(PP_DATA)) | {3: [True, None, 2.5]} if name == "pp" else \
            json.loads(json.dumps(PP2_DATA))
        return Printable(name, kind, data, ppobj.pp)
    if name == "tbl":
        t = PPTable(list(TABLE_RECORDS), fields=["id", "name", "status"], fields_types={"status": enum},
                    fmt=TABLE_FMT, header="Users of the system")
        return Printable(name, kind, t)
    if name == "tbl2":
        src = shared["tbl"]            # the caller supplies the table whose format object is reused
        t = PPTable(list(TABLE_RECORDS), fmt_obj=src.obj.fmt, header="Users of the system")
        return Printable(name, kind, t)
    if name == "tblu":
        t = PPTable(list(UNKNOWN_RECORDS), fields=["id", "name", "status"], fields_types={"status": enum},
                    fields_titles={"id": ["id", 2024], "status": ["status", None]},   # non-string title items
                    fmt=UNKNOWN_FMT, footer="")
        return Printable(name, kind, t)
    if name == "recu":
        f = PPRecordFmt("id:2,status:20,status/val:7", fields=["id", "name", "status"], fields_types={"status": enum})
        return Printable(name, kind, f, (3, "u", 404404))
    if name == "tbl_s":
        t = PPTable(list(SMALL_RECORDS), fields=["id", "name", "status"], fields_types={"status": enum},
                    fmt=SMALL_FMT, footer="")
        return Printable(name, kind, t)
    if name in ("rec1", "rec2"):
        if "recfmt" not in shared:
            shared["recfmt"] = PPRecordFmt("id:3,name:8,status/name:14,status:18", fields=["id", "name", "status"],
                                           fields_types={"status": enum})
        rec = (1, "user 01", 999) if name == "rec1" else (22, None, 10)
        return Printable(name, kind, shared["recfmt"], rec)
    if name == "recr":
        f = PPRecordFmt("id:1-3,name:2-9,status/full:4-30", fields=["id", "name", "status"],
                        fields_types={"status": enum})
        return Printable(name, kind, f, (7, "user 07", 4))
    if name == "gh":
        return Printable(name, kind, _ghist_report())      # report + formatter live as long as the world
    if name == "hd":
        return Printable(name, kind, _hdoc_target()())
    raise ValueError(name)


def text_of(res):
    return res if isinstance(res, str) else str(res)


def line_text(line):
    """One item of a line iterator -> its text, the way the repository consumes lines
    (CHText("\\n").join(lines) accepts CHText objects, chunks and lists of chunks alike)."""
    from ak.color import CHText
    return str(line) if isinstance(line, (CHText, str)) else str(CHText(line))


def lines_text(res):
    """Consume a result line by line -> the text the lines make up."""
    return "\n".join(line_text(line) for line in res)


# --------------------------------------------------------------------------- pristine reference
def _serve(req):
    """Executed in a fresh interpreter: render exactly one (object, configuration, how)."""
    repo = os.environ.get("VERIF_REPO", "/repo")
    sys.dont_write_bytecode = True
    sys.path.insert(0, repo)
    import logging
    logging.disable(logging.CRITICAL)
    import ak
    got = os.path.dirname(os.path.dirname(os.path.abspath(ak.__file__)))
    assert os.path.realpath(got) == os.path.realpath(repo), (got, repo)
    from ak import color
    name, spec, variant, route = req["obj"], req["spec"], req["variant"], req["route"]
    fmt = req.get("fmt")
    shared = {}
    if name in ("tbl", "tbl2"):
        src = build_object("tbl", shared)
        if fmt is not None:
            src.obj.fmt = FMT_OPS[fmt]              # format changed, nothing rendered
        shared["tbl"] = src
        p = src if name == "tbl" else build_object("tbl2", shared)
    else:
        assert fmt is None
        p = build_object(name, shared)
    kw = {}
    if spec == "nc":
        if p.kind == "hdoc":                      # no no_color argument: a no_color global configuration
            color.set_global_colors_config(make_config("N"))
        else:
            kw["no_color"] = True
    else:
        conf = make_config(spec)
        if route == "global" or p.kind == "hdoc":
            color.set_global_colors_config(conf)
        else:
            kw["colors_conf"] = conf
    if variant == "pc":
        kw["palette"] = p.palette_class
    elif variant in ("f1", "f2"):
        kw["palette"] = p.factory_class(int(variant[1]))
    out = {"whole": text_of(p.result(**kw))}
    if name in ITERABLE:
        out["lines"] = [line_text(line) for line in p.result(**kw)]
        out["lines_str"] = [str(line) for line in p.result(**kw)]     # plain str() of every line object
    out["kept"] = kept_items(p, kw)
    return out


def _item_len(item):
    try:
        return len(item)
    except TypeError:
        return None


def kept_items(p, kw):
    """A consumer that *keeps* the line objects: texts taken immediately, texts and len() of the same
    objects taken after the iterator is exhausted (and, for a record formatter, after the formatter was
    used again), and the texts of objects collected first and read only at the end."""
    it, sep = p.line_items(**kw)
    keep, imm, imm_len = [], [], []
    for item in it:
        keep.append(item)
        imm.append(line_text(item))
        imm_len.append(_item_len(item))
    if p.kind == "recfmt":
        p.result(**kw)                                  # the formatter renders again; kept columns must stay
    late = [line_text(x) for x in keep]
    late_len = [_item_len(x) for x in keep]
    it2, _ = p.line_items(**kw)
    collected = list(it2)                               # nothing looked at until the iterator is exhausted
    only_late = [line_text(x) for x in collected]
    only_late_len = [_item_len(x) for x in collected]
    return {"sep": sep, "imm": imm, "imm_len": imm_len, "late": late, "late_len": late_len,
            "only_late": only_late, "only_late_len": only_late_len}


def pristine(requests, repo=None, parallel=16):
    """[{obj, spec, variant, route}] -> list of {whole, lines?}, each computed in its own fresh process."""
    env = dict(os.environ)
    if repo:
        env["VERIF_REPO"] = repo
    env["PYTHONHASHSEED"] = "0"
    env["TZ"] = "UTC"
    results = [None] * len(requests)
    running = []
    todo = list(enumerate(requests))

    def reap(block):
        for item in list(running):
            i, proc = item
            if block or proc.poll() is not None:
                out, err = proc.communicate()
                running.remove(item)
                if proc.returncode != 0:
                    raise RuntimeError(f"pristine rendering of {requests[i]} failed:\n{err[-2000:]}")
                results[i] = json.loads(out)
                if block:
                    return

    while todo or running:
        while todo and len(running) < parallel:
            i, req = todo.pop(0)
            running.append((i, subprocess.Popen(
                [sys.executable, "-B", os.path.abspath(__file__), json.dumps(req)],
                stdout=subprocess.PIPE, stderr=subprocess.PIPE, text=True, env=env)))
        reap(block=False)
        if running and (len(running) >= parallel or not todo):
            reap(block=True)
    return results


def reference_requests():
    """Every (object, format state, configuration, variant, route) the search can ask for.

    std: default palette; pc: alternative palette *class*.  Route 'explicit' passes colors_conf=...,
    route 'global' installs the configuration with set_global_colors_config first (the two must agree).
    fmt: the last format change applied to table 'tbl' before the rendering (None: as constructed).
    """
    reqs = []
    for name, kind in OBJECT_KINDS.items():
        for fmt in (FMT_STATES if name in ("tbl", "tbl2") else (None,)):
            reqs.append({"obj": name, "spec": "nc", "variant": "std", "route": "explicit", "fmt": fmt})
            for spec in CONF_SPECS:
                if spec in SPEC_OBJECTS and name not in SPEC_OBJECTS[spec]:
                    continue
                if fmt is None:
                    reqs.append({"obj": name, "spec": spec, "variant": "std", "route": "global", "fmt": fmt})
                if kind != "hdoc":
                    reqs.append({"obj": name, "spec": spec, "variant": "std", "route": "explicit", "fmt": fmt})
                    if name in HAS_PALETTE_CLASS:
                        reqs.append({"obj": name, "spec": spec, "variant": "pc", "route": "explicit", "fmt": fmt})
                    if name in HAS_FACTORY_CLASS:
                        for v in ("f1", "f2"):
                            reqs.append({"obj": name, "spec": spec, "variant": v, "route": "explicit", "fmt": fmt})
    return reqs


def req_key(req):
    return (req["obj"], req.get("fmt"), req["spec"], req["variant"], req["route"])


if __name__ == "__main__":
    sys.path.insert(1, os.path.dirname(HERE))
    print(json.dumps(_serve(json.loads(sys.argv[1]))))
