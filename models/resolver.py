"""Reference resolver for C14: syntax colors resolve by inheritance.

A *description* is kept in its intended meaning (never parsed from the string here):
    Descr(parent, fg, bg, mods)   parent: syntax id or None
                                  fg/bg : a ColorFmt colour value, INHERIT ("" in the string) or
                                          DEFAULT ("-" in the string: the terminal default)
                                  mods  : {effect name: True/False}
``resolve(id, descrs)`` -> None when the chain reaches an id without description (stays uncolored), else
(fg, bg, effects) with fg/bg a colour value or None (terminal default) and effects the set of switched-on
effect names.  Written from the property statement: own parts override, unspecified parts are inherited
through the whole chain, '-' selects the terminal default.
"""

INHERIT = "<inherit>"
DEFAULT = "<default>"


class Descr:
    __slots__ = ("parent", "fg", "bg", "mods", "kind")

    def __init__(self, parent, fg, bg, mods, kind):
        self.parent, self.fg, self.bg, self.mods, self.kind = parent, fg, bg, dict(mods), kind


def resolve(sid, descrs, _depth=0):
    d = descrs.get(sid)
    if d is None:
        return None
    if _depth > 50:
        raise ValueError("cyclic description set")
    if d.parent is None:
        fg, bg, mods = None, None, {}
    else:
        base = resolve(d.parent, descrs, _depth + 1)
        if base is None:
            return None
        fg, bg, mods = base[0], base[1], dict(base[3])
    if d.fg is DEFAULT:
        fg = None
    elif d.fg is not INHERIT:
        fg = d.fg
    if d.bg is DEFAULT:
        bg = None
    elif d.bg is not INHERIT:
        bg = d.bg
    mods.update(d.mods)
    return (fg, bg, frozenset(k for k, v in mods.items() if v), mods)


def acyclic(descrs):
    for sid in descrs:
        seen = set()
        cur = sid
        while cur in descrs and descrs[cur].parent is not None:
            if cur in seen:
                return False
            seen.add(cur)
            cur = descrs[cur].parent
    return True


def selftest():
    D = Descr
    # tests/test_color.py::test_not_default_config
    cfg = {
        "TEXT": D(None, INHERIT, INHERIT, {}, ""), "NAME": D(None, "BLUE", INHERIT, {"bold": True}, ""),
        "TABLE.BORDER": D("NAME", INHERIT, INHERIT, {}, ""), "TABLE.NAME": D(None, "CYAN", INHERIT, {}, ""),
        "TABLE.ALT2_NAME": D("TABLE.NAME", INHERIT, INHERIT, {}, ""),
        "VERY_COLORED": D("TABLE.ALT2_NAME", INHERIT, INHERIT, {}, ""),
    }
    assert resolve("TABLE.BORDER", cfg)[:3] == ("BLUE", None, frozenset({"bold"}))
    assert resolve("VERY_COLORED", cfg)[:3] == ("CYAN", None, frozenset())
    # test_misc_formats_of_colors_in_config: "SHADE": "TEXT:g4/g5:no_blink", "TEXT": "(4,1,1):blink"
    cfg = {"TEXT": D(None, (4, 1, 1), INHERIT, {"blink": True}, ""),
           "SHADE": D("TEXT", "g4", "g5", {"blink": False}, "")}
    assert resolve("SHADE", cfg)[:3] == ("g4", "g5", frozenset())
    # test_config_not_resolved_items
    cfg = {"SYNT_1": D("SYNT_X_2", INHERIT, INHERIT, {}, ""), "SYNT_4": D("SYNT_1", INHERIT, INHERIT, {}, "")}
    assert resolve("SYNT_4", cfg) is None and resolve("SYNT_1", cfg) is None
    cfg["SYNT_X_2"] = D(None, "GREEN", INHERIT, {}, "")
    assert resolve("SYNT_4", cfg)[:3] == ("GREEN", None, frozenset())
    # '-' after inheritance
    cfg = {"A": D(None, "RED", "BLUE", {}, ""), "B": D("A", DEFAULT, INHERIT, {}, ""), "C": D("B", INHERIT, INHERIT, {}, "")}
    assert resolve("B", cfg)[:3] == (None, "BLUE", frozenset()) and resolve("C", cfg)[:3] == (None, "BLUE", frozenset())
    assert not acyclic({"A": D("B", INHERIT, INHERIT, {}, ""), "B": D("A", INHERIT, INHERIT, {}, "")})
