"""SGR terminal emulator — reference model for C09 (also used by C08/C14 to read colors off strings).

Written from ECMA-48 / the xterm documentation of "Select Graphic Rendition", *not* from ak/color.py:

  CSI  = ESC '['            parameters: digits, ';' separates parameters, ':' separates sub-parameters
  final byte 'm'            anything else after ESC is "malformed" for the purposes of this package

  0 reset | 1 bold | 2 faint | 4 underline | 5 blink | 9 crossed | 22 24 25 29 switch effects off
  30-37 / 40-47 foreground / background palette index 0-7, 39 / 49 default
  90-97 / 100-107 bright palette index 8-15
  38 / 48 extended colour, both spellings:  38:5:n   and   38;5;n   (n = 0..255)
  an empty parameter is 0 (reset)

A terminal state is (fg, bg, effects) with fg/bg = None (default) or a palette index 0..255 and
effects a frozenset of names.  ``run(s)`` feeds a string to a terminal that starts in the default
state and returns the visible cells with the state they were printed in.
"""

ESC = "\x1b"
EFFECTS = ("bold", "faint", "underline", "blink", "crossed")
_ON = {1: "bold", 2: "faint", 4: "underline", 5: "blink", 9: "crossed"}
_OFF = {22: ("bold", "faint"), 24: ("underline",), 25: ("blink",), 29: ("crossed",)}
DEFAULT = (None, None, frozenset())

NAMES = {"BLACK": 0, "RED": 1, "GREEN": 2, "YELLOW": 3, "BLUE": 4, "MAGENTA": 5, "CYAN": 6, "WHITE": 7}


class Problem(Exception):
    pass


def _int(s, what):
    if not s.isdigit():
        raise Problem(f"{what}: {s!r} is not a number")
    return int(s)


def apply_sgr(state, params):
    """state x parameter string (between '[' and 'm') -> state. Raises Problem."""
    fg, bg, eff = state
    eff = set(eff)
    items = params.split(";")
    i = 0
    while i < len(items):
        p = items[i]
        i += 1
        if ":" in p:
            sub = p.split(":")
            head = _int(sub[0], "parameter")
            if head not in (38, 48):
                raise Problem(f"sub-parameters on SGR {head}")
            if len(sub) != 3 or sub[1] != "5":
                raise Problem(f"unsupported extended colour form {p!r}")
            n = _int(sub[2], "colour index")
            if n > 255:
                raise Problem(f"colour index {n} > 255")
            if head == 38:
                fg = n
            else:
                bg = n
            continue
        n = 0 if p == "" else _int(p, "parameter")
        if n == 0:
            fg, bg, eff = None, None, set()
        elif n in _ON:
            eff.add(_ON[n])
        elif n in _OFF:
            for e in _OFF[n]:
                eff.discard(e)
        elif 30 <= n <= 37:
            fg = n - 30
        elif 40 <= n <= 47:
            bg = n - 40
        elif n == 39:
            fg = None
        elif n == 49:
            bg = None
        elif 90 <= n <= 97:
            fg = n - 90 + 8
        elif 100 <= n <= 107:
            bg = n - 100 + 8
        elif n in (38, 48):
            if i < len(items) and items[i] == "5":
                if i + 1 >= len(items):
                    raise Problem("truncated extended colour")
                k = _int(items[i + 1], "colour index")
                if k > 255:
                    raise Problem(f"colour index {k} > 255")
                i += 2
                if n == 38:
                    fg = k
                else:
                    bg = k
            else:
                raise Problem(f"unsupported extended colour after {n}")
        else:
            raise Problem(f"unknown SGR parameter {n}")
    return (fg, bg, frozenset(eff))


def run(s, state=DEFAULT):
    """-> (cells, final_state, problems).  cells = [(char, state)], problems = [str]."""
    cells = []
    problems = []
    i = 0
    n = len(s)
    while i < n:
        c = s[i]
        if c != ESC:
            cells.append((c, state))
            i += 1
            continue
        if i + 1 >= n or s[i + 1] != "[":
            problems.append(f"ESC at {i} does not start a CSI sequence")
            i += 1
            continue
        j = i + 2
        while j < n and s[j] in "0123456789;:":
            j += 1
        if j >= n or s[j] != "m":
            problems.append(f"CSI at {i} is not a well-formed SGR sequence: {s[i:j + 1]!r}")
            i += 2
            continue
        try:
            state = apply_sgr(state, s[i + 2:j])
        except Problem as e:
            problems.append(f"SGR at {i} {s[i:j + 1]!r}: {e}")
        i = j + 1
    return cells, state, problems


def visible(s):
    """The characters a terminal shows (reference stripper)."""
    return "".join(c for c, _ in run(s)[0])


# ----------------------------------------------------------------- expected colour of a ColorFmt argument
def expected_index(spec):
    """Documented meaning of a colour argument -> palette index, None (no colour) or 'invalid'.

    names -> 0-7, int 0..255 -> itself, (r,g,b) each 0..5 -> 16+36r+6g+b, 'g0'..'g23' -> 232+k.
    """
    if spec is None:
        return None
    if isinstance(spec, bool):
        return "invalid"
    if isinstance(spec, str):
        if spec in NAMES:
            return NAMES[spec]
        if len(spec) >= 2 and spec[0] == "g" and spec[1:].isdigit() and str(int(spec[1:])) == spec[1:]:
            k = int(spec[1:])
            return 232 + k if 0 <= k <= 23 else "invalid"
        return "invalid"
    if isinstance(spec, int):
        return spec if 0 <= spec <= 255 else "invalid"
    if isinstance(spec, tuple):
        if len(spec) == 3 and all(isinstance(c, int) and not isinstance(c, bool) and 0 <= c <= 5 for c in spec):
            r, g, b = spec
            return 16 + 36 * r + 6 * g + b
        return "invalid"
    return "invalid"


def selftest():
    """Literal sequences the repository's own tests / docs spell out, read by the emulator."""
    cells, st, pr = run("\x1b[31mab\x1b[0mc")
    assert not pr and st == DEFAULT
    assert cells == [("a", (1, None, frozenset())), ("b", (1, None, frozenset())), ("c", DEFAULT)], cells
    # both spellings of the 256-colour form, effects, background
    for s in ("\x1b[38:5:167;48:5:237;1;4mX\x1b[0m", "\x1b[38;5;167;48;5;237;1;4mX\x1b[m"):
        cells, st, pr = run(s)
        assert not pr and st == DEFAULT, (s, pr, st)
        assert cells == [("X", (167, 237, frozenset({"bold", "underline"})))], cells
    assert run("\x1b[1;22;5;25mX")[0][0][1] == DEFAULT
    assert run("\x1b[95;104mX")[0][0][1] == (13, 12, frozenset())
    assert run("\x1b[31;;1mX")[0][0][1] == (None, None, frozenset({"bold"}))      # empty parameter = reset
    assert run("\x1b[3xm")[2] and run("\x1b(0")[2] and run("\x1b[38:5:256m")[2] and run("\x1b[38:5:-1m")[2]
    assert run("\x1b[38:2:1:2:3m")[2] and run("\x1b[77m")[2]
    assert visible("\x1b[38:5:100mabc\x1b[0m") == "abc"
    # tests/test_color.py: (4,1,1) == 167, g5 == 237, invalid: -5, 256, g25, (1,1,6), (1,1)
    assert expected_index((4, 1, 1)) == 167 and expected_index("g5") == 237
    assert expected_index((3, 5, 1)) == 155                      # test_misc_formats_of_colors_in_config
    for bad in (-5, 256, "g25", (1, 1, 6), (1, 1), "BAD_COLOR", "g24", 1.5):
        assert expected_index(bad) == "invalid", bad
    assert expected_index("g0") == 232 and expected_index("g23") == 255 and expected_index(None) is None
