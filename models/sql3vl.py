"""Reference evaluator of SQL three-valued logic for the filter trees of C15.

Truth values: True, False, None (= unknown).  A row is selected iff the conjunction of all top-level
items evaluates to True.  Written from the SQL standard / sqlite documentation, not from ak.mtd_sql:

  * any comparison (=, !=, <, >, <=, >=, LIKE) with a NULL operand on either side is unknown;
  * x IN (e1..ek): false for k = 0 (even for NULL x); unknown for NULL x; true if some ei = x;
    otherwise unknown if some ei is NULL, else false.   NOT IN = three-valued NOT of IN;
  * IS NULL / IS NOT NULL are never unknown;
  * LIKE: '%' any sequence, '_' exactly one character, ASCII letters case-insensitive, no escape;
  * values of different storage classes never compare equal; numbers sort before text (sqlite);
    text compares by code point (BINARY collation);
  * the documented spelling rules of the filter tuples: '=' / '!=' with None mean IS NULL / IS NOT NULL,
    '=' / '!=' with a list or tuple mean IN / NOT IN, (col, value) means (col, '=', value).

Value specs (JSON-able): ["v", scalar] | ["l", [..]] list | ["t", [..]] tuple | ["s", [..]] set.
"""

import functools


def not3(x):
    return None if x is None else (not x)


def and3(vals):
    unknown = False
    for v in vals:
        if v is False:
            return False
        if v is None:
            unknown = True
    return None if unknown else True


def or3(vals):
    unknown = False
    for v in vals:
        if v is True:
            return True
        if v is None:
            unknown = True
    return None if unknown else False


def _klass(v):
    if isinstance(v, bool):
        raise TypeError("bool operands are not part of the alphabet")
    if isinstance(v, (int, float)):
        return 0
    if isinstance(v, str):
        return 1
    raise TypeError(type(v))


def eq3(a, b):
    if a is None or b is None:
        return None
    return _klass(a) == _klass(b) and a == b


def lt3(a, b):
    if a is None or b is None:
        return None
    ka, kb = _klass(a), _klass(b)
    if ka != kb:
        return ka < kb
    return a < b


@functools.lru_cache(maxsize=None)
def _like(pattern, text):
    # classic recursive matcher, lower-cased ASCII
    p, t = pattern, text
    if not p:
        return not t
    if p[0] == "%":
        return any(_like(p[1:], t[k:]) for k in range(len(t) + 1))
    if not t:
        return False
    if p[0] == "_" or _fold(p[0]) == _fold(t[0]):
        return _like(p[1:], t[1:])
    return False


def _fold(c):
    return c.lower() if "A" <= c <= "Z" else c


def like3(value, pattern):
    if value is None or pattern is None:
        return None
    return _like(pattern, value if isinstance(value, str) else str(value))


def in3(x, members):
    members = list(members)
    if not members:
        return False
    if x is None:
        return None
    res = [eq3(x, m) for m in members]
    return or3(res)


def decode_value(spec):
    kind, v = spec
    if kind == "v":
        return v
    if kind == "l":
        return list(v)
    if kind == "t":
        return tuple(v)
    if kind == "s":
        return set(v)
    raise ValueError(spec)


def normalise(op, spec):
    """Documented spelling rules -> (canonical op, members-or-scalar).  None when the pair is ill-typed."""
    op = op.upper()
    kind, v = spec
    is_list = kind in ("l", "t", "s")
    if op in ("=", "!="):
        if kind == "s":
            return None                       # '=' with a set: not defined by the documentation
        if is_list:
            return ("IN" if op == "=" else "NOT IN", list(v))
        if v is None:
            return ("IS NULL" if op == "=" else "IS NOT NULL", None)
        return (op, v)
    if op in ("IN", "NOT IN"):
        return (op, list(v)) if is_list else None
    if op in ("IS NULL", "IS NOT NULL"):
        return (op, None) if (kind == "v" and v is None) else None
    if op in ("LIKE", "NOT LIKE"):
        return (op, v) if (kind == "v" and isinstance(v, str)) else None
    if op in ("<", ">", "<=", ">="):
        return (op, v) if kind == "v" else None
    return None


def bound_values(op, spec):
    """Values the statement must carry as parameters for this leaf (order inside IN lists is free)."""
    cop, v = normalise(op, spec)
    if cop in ("IS NULL", "IS NOT NULL"):
        return []
    if cop in ("IN", "NOT IN"):
        return list(v)
    return [v]


def eval_atom(x, op, spec):
    """Truth value of  <column value x> op <operand>."""
    cop, v = normalise(op, spec)
    if cop == "=":
        return eq3(x, v)
    if cop == "!=":
        return not3(eq3(x, v))
    if cop == "IN":
        return in3(x, v)
    if cop == "NOT IN":
        return not3(in3(x, v))
    if cop == "IS NULL":
        return x is None
    if cop == "IS NOT NULL":
        return x is not None
    if cop == "LIKE":
        return like3(x, v)
    if cop == "NOT LIKE":
        return not3(like3(x, v))
    if cop == "<":
        return lt3(x, v)
    if cop == ">":
        return lt3(v, x)
    if cop == "<=":
        return not3(lt3(v, x))
    if cop == ">=":
        return not3(lt3(x, v))
    raise ValueError(cop)


# ---- truth "vectors" over a fixed list of rows, as two bit masks (true bits, false bits) -------------
def atom_masks(rows, colidx, op, spec):
    t = f = 0
    for k, row in enumerate(rows):
        r = eval_atom(row[colidx], op, spec)
        if r is True:
            t |= 1 << k
        elif r is False:
            f |= 1 << k
    return t, f


def and_masks(ms, full):
    t, f = full, 0
    for mt, mf in ms:
        t &= mt
        f |= mf
    return t, f


def or_masks(ms, full):
    t, f = 0, full
    for mt, mf in ms:
        t |= mt
        f &= mf
    return t, f


def selftest():
    # expectations spelled out in tests/test_mtd_sql.py::test_arguments_processing (users: James, Arnold, Harry)
    rows = [(1, "James", 1), (2, "Arnold", 1), (3, "Harry", None)]

    def sel(col, op, spec):
        return [r[0] for r in rows if eval_atom(r[col], op, spec) is True]

    assert sel(1, "=", ["v", "James"]) == [1]
    assert sel(1, "!=", ["v", "James"]) == [2, 3]
    assert sel(1, "IN", ["l", ["James"]]) == [1]
    assert sel(1, "NOT IN", ["l", ["James"]]) == [2, 3]
    assert sel(1, "IN", ["l", []]) == []
    assert sel(1, "NOT IN", ["l", []]) == [1, 2, 3]
    assert sel(1, "LIKE", ["v", "%am%"]) == [1]
    assert sel(1, "NOT LIKE", ["v", "%am%"]) == [2, 3]
    assert sel(2, "IS NULL", ["v", None]) == [3]
    assert sel(2, "=", ["v", None]) == [3]
    assert sel(2, "!=", ["v", None]) == [1, 2]
    assert sel(2, "IS NOT NULL", ["v", None]) == [1, 2]
    # three-valued corners
    assert eval_atom(None, "=", ["v", 1]) is None and eval_atom(None, "!=", ["v", 1]) is None
    assert eval_atom(2, "NOT IN", ["l", [1, None]]) is None and eval_atom(1, "NOT IN", ["l", [1, None]]) is False
    assert eval_atom(None, "IN", ["l", []]) is False and eval_atom(None, "NOT IN", ["l", []]) is True
    assert eval_atom("A_B", "LIKE", ["v", "a_b"]) is True and eval_atom("axb", "LIKE", ["v", "a_b"]) is True
    assert eval_atom("50%", "LIKE", ["v", "50%"]) is True and eval_atom("500", "LIKE", ["v", "50%"]) is True
    assert eval_atom("ab", "LIKE", ["v", "a_b"]) is False
    assert or3([False, None]) is None and and3([True, None]) is None and and3([False, None]) is False
    assert or3([]) is False and and3([]) is True
