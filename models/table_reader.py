"""Structural reader of a printed ``PPTable`` (reference model, used by C12).

The reader knows only the documented picture of a table (tests/test_ppobj.py, ``verify_table_format``):

    +--+-----+------+          border: '+' marks, '-' runs; the '+' marks define the columns
    |some table     |          optional header line: '|' only at both ends
    |id|level|name  |          one or more title rows: '|' under every '+'
    +--+-----+------+          the same border again
    | 1|   10|Linus |          body: record rows ('|' under every '+') and service lines
    |               |          (blank "break" line, "... N records skipped" line: '|' only at the ends)
    +--+-----+------+          the same border again
    Total 4 records            optional footer line, as wide as the table

Column positions are taken from the '+' marks of the first line and *never* by splitting on '|', so
cell values that contain '|', '+' or '-' cannot confuse it.  It does not know which body line is a
record and which a service line (with one column the two look alike); the caller matches rows against
its own expectation.  Nothing here is derived from the implementation's code.
"""

import re

BORDER_RE = re.compile(r"^\+(?:-*\+)+$")
SKIPPED_RE = re.compile(r"(?<!\d)(\d+) ")


class TableStructureError(Exception):
    """The text is not a table of the documented shape."""

    def __init__(self, kind, message, line_no=None, section=None):
        super().__init__(f"{kind}: {message}")
        self.kind = kind
        self.message = message
        self.line_no = line_no
        self.section = section


class Row:
    __slots__ = ("line_no", "raw", "inner", "sep_ok", "cells")

    def __init__(self, line_no, raw, plus):
        self.line_no = line_no
        self.raw = raw
        self.inner = raw[1:-1]
        self.sep_ok = all(raw[p] == "|" for p in plus)
        self.cells = [raw[a + 1:b] for a, b in zip(plus, plus[1:])]

    def __repr__(self):
        return f"Row({self.line_no}, {self.raw!r})"


class ParsedTable:
    __slots__ = ("lines", "width", "plus", "col_widths", "head", "body", "foot")


def read_table(text):
    """Text (str) or list of line strings -> ParsedTable; raises TableStructureError."""
    lines = text.split("\n") if isinstance(text, str) else list(text)
    if not lines or not BORDER_RE.match(lines[0]):
        raise TableStructureError("no-top-border", "first line is not a '+--+' border line", 0, "border")
    top = lines[0]
    width = len(top)
    plus = [i for i, ch in enumerate(top) if ch == "+"]
    t = ParsedTable()
    t.lines = lines
    t.width = width
    t.plus = plus
    t.col_widths = [b - a - 1 for a, b in zip(plus, plus[1:])]
    t.head, t.body, t.foot = [], [], []

    # section of every line: the frame is closed by the 2nd and 3rd line starting with '+'
    section = []
    borders_seen = 1
    for line in lines[1:]:
        if borders_seen < 3 and line.startswith("+"):
            borders_seen += 1
            section.append("border")
        else:
            section.append(("head", "body", "foot")[borders_seen - 1])
    if borders_seen < 3:
        raise TableStructureError("missing-border", f"only {borders_seen} border line(s) found", None, "border")

    for no, (line, sec) in enumerate(zip(lines[1:], section), start=1):
        if len(line) != width:
            raise TableStructureError(
                "ragged", f"line {no} is {len(line)} wide, the table is {width} wide", no, sec)
    for no, (line, sec) in enumerate(zip(lines[1:], section), start=1):
        if sec == "border":
            if line != top:
                raise TableStructureError("border-differs", f"border line {no} differs from the first line", no, sec)
        elif sec == "foot":
            t.foot.append(line)
        else:
            if not (line.startswith("|") and line.endswith("|")) or width < 2:
                raise TableStructureError("frame", f"line {no} does not start and end with '|'", no, sec)
            (t.head if sec == "head" else t.body).append(Row(no, line, plus))
    return t


def fits(cell, text):
    """``cell`` shows ``text`` in full, padded with blanks on either side."""
    n = len(text)
    if n > len(cell):
        return False
    if n == 0:
        return cell.strip(" ") == ""
    start = cell.find(text)
    while start != -1:
        if cell[:start].strip(" ") == "" and cell[start + n:].strip(" ") == "":
            return True
        start = cell.find(text, start + 1)
    return False


def is_truncation(cell, text):
    """``text`` is longer than the cell and the cell shows a prefix of it followed by at least one dot
    (a cell of width 0 shows nothing)."""
    w = len(cell)
    if len(text) <= w:
        return False
    if w == 0:
        return True
    for j in range(w - 1, -1, -1):          # j characters of the value, w - j dots
        if cell[j:] == "." * (w - j) and cell[:j] == text[:j]:
            return True
    return False


def skipped_number(inner):
    """The announced number of a 'records skipped' line, or None if it cannot be read in full
    (the line was truncated inside or before the number)."""
    m = SKIPPED_RE.search(inner)
    return int(m.group(1)) if m else None


def selftest():
    doc = ("+--+-----+------+\n"
           "|some table     |\n"
           "|id|level|name  |\n"
           "+--+-----+------+\n"
           "| 1|   10|Linus |\n"
           "| 2|   10|Arnold|\n"
           "| 3|   17|Jerry |\n"
           "| 4|    7|Elizer|\n"
           "+--+-----+------+\n"
           "Total 4 records  ")
    t = read_table(doc)
    assert t.col_widths == [2, 5, 6] and t.width == 17
    assert [r.cells for r in t.head[1:]] == [["id", "level", "name  "]] and not t.head[0].sep_ok
    assert [r.cells[2] for r in t.body] == ["Linus ", "Arnold", "Jerry ", "Elizer"]
    assert t.foot == ["Total 4 records  "]
    assert fits("   10", "10") and fits("Linus ", "Linus") and not fits("Linus ", "Linu")
    assert is_truncation("Li...", "Linus Torvalds") and not is_truncation("Linus", "Linus")
    assert is_truncation("..", "abc") and is_truncation("", "abc") and not is_truncation("ab", "abc")
    assert skipped_number("... 12 records skipped  ") == 12 and skipped_number("... 1...") is None
    for bad, kind in ((doc.replace("| 2|   10|Arnold|", "| 2|   10|Arnold |"), "ragged"),
                      (doc.replace("| 2|   10|Arnold|", "| 2|   10|Arnold "), "frame"),
                      (doc.replace("+--+-----+------+\nTotal", "+--+----+-------+\nTotal"), "border-differs"),
                      ("|a|\n+-+", "no-top-border"), ("+-+\n|a|\n+-+", "missing-border")):
        try:
            read_table(bad)
        except TableStructureError as e:
            assert e.kind == kind, (e.kind, kind)
        else:
            raise AssertionError("accepted: " + bad)
    shifted = read_table(doc.replace("| 2|   10|Arnold|", "| 2 |  10|Arnold|"))
    assert not shifted.body[1].sep_ok
