"""./check <id> [--tier quick|thorough] [--replay file] — see DESIGN.md §1.4/§1.5/§5."""

import argparse
import importlib
import json
import multiprocessing
import os
import random
import sys
import time
import traceback

sys.path.insert(0, os.path.dirname(os.path.dirname(os.path.abspath(__file__))))
from mc import core  # noqa: E402


def load_check(cid):
    cdir = os.path.join(core.VERIF, "checks")
    names = [f[:-3] for f in os.listdir(cdir)
             if f.lower().startswith(cid.lower() + "_") and f.endswith(".py")]
    if len(names) != 1:
        raise SystemExit(f"HARNESS-ERROR: no unique check module for {cid}: {names}")
    return importlib.import_module("checks." + names[0])


_MOD = None


def _worker_init(cid):
    global _MOD
    core.bind_repo()
    _MOD = load_check(cid)


def _worker_run(args):
    shard, tier, seed, deadline = args
    acc = core.Acc(seed=seed, deadline=deadline)
    try:
        _MOD.run_shard(shard, tier, seed, acc)
    except BaseException:
        return {"error": traceback.format_exc(), "shard": repr(shard)[:300]}
    return acc.export()


def _replay_once(mod, case):
    acc = core.Acc()
    mod.replay(case, acc)
    return sorted(acc.violations.keys()), acc


def main():
    ap = argparse.ArgumentParser()
    ap.add_argument("id")
    ap.add_argument("--tier", default=os.environ.get("VERIF_TIER") or "quick",
                    choices=["quick", "thorough"])
    ap.add_argument("--replay")
    ap.add_argument("--workers", type=int,
                    default=int(os.environ.get("VERIF_WORKERS", "0")) or min(16, os.cpu_count() or 1))
    ap.add_argument("--serial", action="store_true", help="run shards in this process (debugging)")
    args = ap.parse_args()
    cid = args.id.upper()
    seed = int(os.environ.get("VERIF_SEED", "0") or 0)

    core.bind_repo()
    mod = load_check(cid)

    if args.replay:
        with open(args.replay) as f:
            rec = json.load(f)
        sigs, acc = _replay_once(mod, rec["case"])
        if sigs:
            for s in sigs:
                r = acc.violations[s][0][1]
                print(f"replayed violation [{s}]: {r['message']}")
                print(f"  observed: {core.jdump(r['observed'])[:1500]}")
                print(f"  expected: {core.jdump(r['expected'])[:1500]}")
            print(f"VIOLATION property={cid} replay={os.path.abspath(args.replay)}")
            return 1
        print(f"replay of {args.replay}: property {cid} holds on this case")
        return 0

    t0 = time.time()
    budget = float(os.environ.get("VERIF_BUDGET_S", "0") or 0) or \
        (840.0 if args.tier == "quick" else 6 * 3600.0)
    deadline = t0 + budget
    shards = list(mod.shards(args.tier))
    random.Random(seed).shuffle(shards)
    total = core.Acc(seed=seed)
    errors = []
    jobs = [(s, args.tier, seed, deadline) for s in shards]
    if args.serial or args.workers == 1 or len(jobs) == 1:
        _worker_init(cid)
        results = map(_worker_run, jobs)
        for res in results:
            if "error" in res:
                errors.append(res)
            else:
                total.merge(res)
    else:
        ctx = multiprocessing.get_context("fork")
        with ctx.Pool(min(args.workers, len(jobs)), initializer=_worker_init, initargs=(cid,)) as pool:
            for res in pool.imap_unordered(_worker_run, jobs, chunksize=1):
                if "error" in res:
                    errors.append(res)
                else:
                    total.merge(res)
    if errors:
        for e in errors[:3]:
            print(f"HARNESS-ERROR in shard {e['shard']}:\n{e['error']}")
        return 2

    # ---- violations: replay twice, classify against known findings ------------
    known = [k for k in core.load_known_findings() if k["property"] == cid]
    open_sigs = {k["signature"]: k for k in known if k.get("status") == "open"}
    exit_code = 0
    reported = []
    diverged = []
    for sig in sorted(total.violations):
        recs = [r for _, r in total.violations[sig]]
        rec = recs[0]
        s1, _ = _replay_once(mod, rec["case"])
        s2, _ = _replay_once(mod, rec["case"])
        if s1 != s2 or sig not in s1:
            # a recorded case that does not fail again in isolation: either the harness does not own some
            # nondeterminism, or the implementation keeps state between cases.  Never reported as a
            # violation; the run fails as a harness error unless another, reproducible, case is reported.
            print(f"HARNESS-ERROR: replay of a {sig} case diverged ({s1} / {s2}); not reproducible in "
                  f"isolation (state kept between cases, or nondeterminism not owned by the harness); "
                  f"case={core.jdump(rec['case'])[:600]}")
            diverged.append(sig)
            continue
        if sig in open_sigs:
            print(f"KNOWN-FINDING: property={cid} {sig}: {open_sigs[sig].get('what', rec['message'])} "
                  f"({total.viol_count[sig]} cases in this run)")
            continue
        rdir = os.path.join(core.VERIF, "replays", cid)
        os.makedirs(rdir, exist_ok=True)
        path = os.path.join(rdir, core.case_hash(rec["case"]) + ".json")
        with open(path, "w") as f:
            json.dump({"property": cid, **rec, "count_in_run": total.viol_count[sig],
                       "tier": args.tier, "seed": seed}, f, indent=1, default=repr, sort_keys=True)
        print(f"violation [{sig}] x{total.viol_count[sig]}: {rec['message']}")
        print(f"  case:     {core.jdump(rec['case'])[:1200]}")
        print(f"  observed: {core.jdump(rec['observed'])[:800]}")
        print(f"  expected: {core.jdump(rec['expected'])[:800]}")
        print(f"VIOLATION property={cid} replay={path}")
        reported.append(sig)
        exit_code = 1

    # ---- vacuity ----------------------------------------------------------------
    missing = [f for f in getattr(mod, "REQUIRED_FEATURES", []) if total.features.get(f, 0) == 0]
    if callable(getattr(mod, "required_features", None)):
        missing = [f for f in mod.required_features(args.tier) if total.features.get(f, 0) == 0]
    wall = time.time() - t0
    evidence = {
        "property_id": cid, "tier": args.tier, "seed": seed, "level": "model_checking",
        "coverage": {
            "states": total.states, "transitions": total.transitions,
            "traces_validated_against_impl": total.traces,
            "evaluations": total.evaluations, "distinct_nontrivial": total.nontrivial,
            "rule": mod.RULE,
            "exhaustive": (not total.capped),
            "bounds": mod.bounds(args.tier),
            "shards": len(shards),
            "features": dict(sorted(total.features.items())),
            "distinct_outcomes": len(total.outcomes),
            "outcomes_top": dict(sorted(total.outcomes.items(), key=lambda kv: -kv[1])[:12]),
            "extra": total.extra,
            "samples": total.samples[:core.Acc.MAX_SAMPLES] or ["<no sample offered>"],
            "violation_signatures": {s: total.viol_count[s] for s in sorted(total.viol_count)},
            "repo": core.REPO,
        },
        "assumptions": list(mod.ASSUMPTIONS),
        "wall_s": round(wall, 2),
        "violations": sum(total.viol_count[s] for s in reported),
    }
    if total.capped:
        evidence["coverage"]["cap"] = f"time budget {budget:.0f}s hit; shards stopped early, not exhaustive"
    os.makedirs(os.path.join(core.VERIF, "evidence"), exist_ok=True)
    if os.environ.get("VERIF_NO_EVIDENCE") != "1":
        with open(os.path.join(core.VERIF, "evidence", cid + ".json"), "w") as f:
            json.dump(evidence, f, indent=1, default=repr, sort_keys=True)
    print(f"{cid} tier={args.tier} seed={seed} repo={core.REPO}: states={total.states} "
          f"transitions={total.transitions} validated={total.traces} evaluations={total.evaluations} "
          f"nontrivial={total.nontrivial} outcomes={len(total.outcomes)} "
          f"exhaustive={not total.capped} wall={wall:.1f}s")
    if diverged and not reported:
        return 2
    if missing and not reported:
        print(f"HARNESS-ERROR: vacuous exploration, features never hit: {missing}")
        return 2
    if total.states < 1 or total.transitions < 1:
        print("HARNESS-ERROR: nothing explored")
        return 2
    return exit_code


if __name__ == "__main__":
    sys.exit(main())
