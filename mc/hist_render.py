"""Engine for the rendering-history checks (C10, C13): explicit-state exploration on the real objects.

  * AdversarialId   (E4) -- stand-in for the builtin ``id`` seen by ``ak.ppobj``: every object gets the
                            lowest free slot, a slot is free again as soon as its object is dead.  Legal
                            (ids are unique among *live* objects only) and deterministic; it turns "the
                            allocator may hand the address of a dead palette to a new one" into "it does".
                            Inert when the code under test does not call id().
  * World           (E2) -- one pristine world per history: module-level caches reset (DESIGN §1.2),
                            fresh printable objects, configurations created / dropped / made global,
                            renderings whole, by lines, and through suspended line iterators (E3).
                            The world also carries the *model* of which configuration is in force for
                            every rendering request (that is all the reference model there is: the
                            expected text comes from a pristine process, see models.render_objs).
  * merge_orders    (E3) -- all interleavings of two line iterators.
  * bfs_states      (E2) -- breadth-first exploration with replay-from-scratch and canonical state keys
                            (used by C13's table life-cycle machine).

Operations of a history (JSON lists):
  ["r", obj, how]   render whole             ["l", obj, how]   consume line by line
  ["o", obj, how]   open a line iterator and take its first line   ["o0", obj, how]  open, take nothing
  ["f"]             finish the oldest open iterator (all are finished at the end of a history)
  ["drop", spec]    forget configuration `spec` + gc.collect()     ["glob", spec]  make it the global one
                    (spec "-" = set_global_colors_config(None))
  ["fmt", obj, F]   change the record limits of table obj (columns kept), render nothing
  ["ab", obj, how, k]  open a line iterator, take k lines, abandon it (close) -- nothing observed
  ["fl", obj, how]  t = result.fixed_len(len(result)); t += "!"; then the result is read (must be unchanged)
  ["hnew"] / ["hp"] create a long-lived HCommand / console help through it (judged against the palette
                    it captured at creation; how often that differs from the global one is counted)
how: "g" global configuration | "cX" colors_conf=X | "nc" no_color=True | "pc" palette class |
     "pcX" palette class + colors_conf=X | "f1" / "f2" [+X] first / second class made by one factory | "po" palette object (made from the global configuration in
     force at its first use) | "ponc" palette object + no_color=True
"""

import gc
import weakref

from models import render_objs as R

_real_id = id


class AdversarialId:
    BASE = 7_000_000

    def __init__(self):
        self.gen = 0
        self.reset()

    def reset(self):
        self.gen += 1
        self.slots = {}        # slot -> weakref
        self.by_obj = {}       # real id -> (slot, weakref)
        self.ever = set()
        self.calls = 0
        self.reuses = 0        # a slot handed out again after its previous owner died
        self.max_live = 0

    def __call__(self, obj):
        self.calls += 1
        rid = _real_id(obj)
        ent = self.by_obj.get(rid)
        if ent is not None and ent[1]() is obj:
            return self.BASE + ent[0]
        k = 0
        while k in self.slots:
            k += 1
        gen = self.gen

        def _dead(wr, k=k, rid=rid, gen=gen):
            if self.gen == gen and self.slots.get(k) is wr:
                del self.slots[k]
                self.by_obj.pop(rid, None)

        try:
            wr = weakref.ref(obj, _dead)
        except TypeError:
            return rid                      # cannot be tracked: the genuine answer
        self.slots[k] = wr
        self.by_obj[rid] = (k, wr)
        if k in self.ever:
            self.reuses += 1
        self.ever.add(k)
        self.max_live = max(self.max_live, len(self.slots))
        return self.BASE + k


def _all_palette_classes():
    from ak.color import Palette
    seen, todo = [], [Palette]
    while todo:
        c = todo.pop()
        if c in seen:
            continue
        seen.append(c)
        todo.extend(c.__subclasses__())
    return seen


class StateSnapshot:
    """Pristine module- and class-level state of the ak modules under test, restorable in place.

    DESIGN §1.2 lists the caches known when the checks were written; a later change may hoist another
    scratch buffer / memo to module or class scope.  Rendering histories must each start from the state
    of a fresh interpreter, otherwise what a history observes depends on the histories a worker ran
    before it and a failing history does not replay.  The snapshot therefore covers *every* name of the
    modules and of the classes defined in them (recursively), one level of attributes of instances of
    those classes reachable from there, the content of dict / list / set containers, and lru caches:
      - a name rebound since the snapshot is bound back, a name added since is deleted,
      - a container keeps its identity and gets its pristine content back.
    Taken once per process before anything is rendered.
    """
    CONTAINERS = (dict, list, set)

    def __init__(self, modules):
        self.mod_names = {m.__name__ for m in modules}
        self.owners = []          # (owner, {name: value})   modules and classes
        self.inst = []            # (instance, {attr: value})
        self.contents = []        # (container, copy)
        self.lru = []
        self._seen = set()
        for m in modules:
            self._owner(m)

    def _ours(self, tp):
        return getattr(tp, "__module__", None) in self.mod_names

    def _owner(self, owner):
        if _real_id(owner) in self._seen:
            return
        self._seen.add(_real_id(owner))
        names = {}
        for name, val in list(vars(owner).items()):
            if name.startswith("__") and name.endswith("__"):
                continue
            names[name] = val
            self._value(val)
        self.owners.append((owner, names, len(vars(owner))))

    def _value(self, val, depth=0):
        if isinstance(val, type):
            if self._ours(val):
                self._owner(val)
            return
        if hasattr(val, "cache_clear") and callable(getattr(val, "cache_clear", None)):
            self.lru.append(val)
            return
        if _real_id(val) in self._seen:
            return
        if isinstance(val, self.CONTAINERS) or isinstance(val, (weakref.WeakKeyDictionary, weakref.WeakValueDictionary)):
            self._seen.add(_real_id(val))
            try:
                self.contents.append((val, val.copy()))
            except Exception:  # noqa
                return
            if depth < 2 and isinstance(val, (dict, list, set)):
                for x in (val.values() if isinstance(val, dict) else val):
                    self._value(x, depth + 1)
            return
        if self._ours(type(val)) and depth < 2:
            self._seen.add(_real_id(val))
            attrs = {}
            names = list(getattr(val, "__dict__", {}).keys())
            for klass in type(val).__mro__:
                sl = klass.__dict__.get("__slots__", ())
                names.extend([sl] if isinstance(sl, str) else list(sl))
            for a in names:
                if a.startswith("__"):
                    continue
                try:
                    v = getattr(val, a)
                except AttributeError:
                    continue
                attrs[a] = v
                self._value(v, depth + 1)
            self.inst.append((val, attrs))

    def restore(self):
        for fn in self.lru:
            fn.cache_clear()
        for owner, names, n_names in self.owners:
            now = vars(owner)
            if len(now) != n_names:
                for n in [n for n in now if n not in names and not (n.startswith("__") and n.endswith("__"))]:
                    delattr(owner, n)                      # a name that did not exist in a fresh interpreter
            for n, v in names.items():
                if now.get(n, None) is not v:
                    setattr(owner, n, v)
        for obj, attrs in self.inst:
            d = getattr(obj, "__dict__", None)
            if d is not None and len(d) != sum(1 for a in attrs if a in d):
                for a in [a for a in d if a not in attrs]:
                    delattr(obj, a)
            for a, v in attrs.items():
                try:
                    if getattr(obj, a) is not v:
                        setattr(obj, a, v)
                except AttributeError:
                    setattr(obj, a, v)
        for cont, copy_ in self.contents:
            if len(cont) != len(copy_) or cont != copy_:
                if isinstance(cont, list):
                    cont[:] = copy_
                else:
                    cont.clear()
                    cont.update(copy_)


_SNAPSHOT = None


def pristine_state():
    """The snapshot of this process (taken at first call: call before anything is rendered)."""
    global _SNAPSHOT
    if _SNAPSHOT is None:
        from ak import color, ppobj, ghist, hdoc
        _SNAPSHOT = StateSnapshot([color, ppobj, ghist, hdoc])
    return _SNAPSHOT


class HistoryDisabled(Exception):
    """The history contains a transition that is not enabled (e.g. drop of a configuration that
    does not exist): it is the same as a shorter history and is not counted."""


class World:
    _frozen = False

    def __init__(self):
        from ak import color, ppobj, ghist, hdoc  # noqa: F401  (import everything before freezing)
        self.color, self.ppobj, self.hdoc = color, ppobj, hdoc
        self.snapshot = pristine_state()                   # before anything is rendered in this process
        R.palettes()
        R._hdoc_target()
        self.ids = AdversarialId()
        self.palette_classes = _all_palette_classes()
        warm = {}
        for name in R.OBJECT_KINDS:                        # warm up lazy imports before freezing
            if name == "tbl2":
                warm["tbl"] = R.build_object("tbl", warm)
            R.build_object(name, warm)
        del warm
        gc.disable()
        if not World._frozen:
            gc.collect()
            gc.freeze()
            World._frozen = True
        self.reset()

    # ------------------------------------------------------------------ reset (DESIGN §1.2)
    def reset(self):
        color = self.color
        self.objs = {}
        self.shared = {}
        self.fmt_state = {}
        self.slots = {}
        self.palobjs = {}
        self.palobj_spec = {}
        self.open = []            # [name, refkey, iterator, collected lines]
        self.hcmd = None
        self.global_spec = "D"
        self.created = {}
        self.events = set()
        self.n_ops = 0
        self.ids.reset()
        self.snapshot.restore()                            # whatever lives at module / class scope
        color._GLOBAL_COLORS_CONF = None
        for k in list(color._GSYNCED_PALETTES):
            if color._GSYNCED_PALETTES[k] is not color.global_palette:
                del color._GSYNCED_PALETTES[k]
        for cls in self.palette_classes:
            cls._PALETTE_NO_COLOR = None
        color.ColorFmt._NO_COLOR = None
        color.CHText._SEQ_RE = None
        color.set_global_colors_config(None)       # fresh default configuration, global_palette re-synced
        self.ppobj.id = self.ids
        gc.collect()

    # ------------------------------------------------------------------ model of "configuration in force"
    def _conf(self, spec):
        c = self.slots.get(spec)
        if c is None:
            c = self.slots[spec] = R.make_config(spec)
            n = self.created[spec] = self.created.get(spec, 0) + 1
            if n > 1:
                self.events.add("config-recreated")
        return c

    def _obj(self, name):
        p = self.objs.get(name)
        if p is None:
            if name == "tbl2":                              # PPTable(records, fmt_obj=tbl.fmt), made now
                self.shared["tbl"] = self._obj("tbl")
                self.fmt_state["tbl2"] = self.fmt_state.get("tbl")
            p = self.objs[name] = R.build_object(name, self.shared)
        return p

    def _how(self, p, how):
        """-> (kwargs for the rendering request, reference key (spec, variant))."""
        if p.kind == "hdoc":
            if how != "g":
                raise HistoryDisabled(how)
            return {}, (self.global_spec, "std")
        if how == "g":
            return {}, (self.global_spec, "std")
        if how == "nc":
            return {"no_color": True}, ("nc", "std")
        if how[0] == "c":
            return {"colors_conf": self._conf(how[1])}, (how[1], "std")
        if how[0] == "f":                                   # "f1" / "f2" [+ spec]: class made by a factory
            if p.name not in R.HAS_FACTORY_CLASS:
                raise HistoryDisabled(how)
            cls = p.factory_class(int(how[1]))
            if len(how) == 3:
                return {"palette": cls, "colors_conf": self._conf(how[2])}, (how[2], how[:2])
            return {"palette": cls}, (self.global_spec, how[:2])
        if p.palette_class is None or p.name not in R.HAS_PALETTE_CLASS:
            raise HistoryDisabled(how)
        if how == "pc":
            return {"palette": p.palette_class}, (self.global_spec, "pc")
        if how.startswith("pc"):
            return {"palette": p.palette_class, "colors_conf": self._conf(how[2])}, (how[2], "pc")
        if how in ("po", "ponc"):
            po = self.palobjs.get(p.kind)
            if po is None:
                po = self.palobjs[p.kind] = p.palette_class()       # bound to the global configuration now
                self.palobj_spec[p.kind] = self.global_spec
            if how == "ponc":
                return {"palette": po, "no_color": True}, ("nc", "std")
            return {"palette": po}, (self.palobj_spec[p.kind], "pc")
        raise ValueError(how)

    # ------------------------------------------------------------------ transitions
    def do(self, op):
        """Execute one operation; -> list of observations (name, refkey, text, via)."""
        self.n_ops += 1
        kind = op[0]
        if kind == "drop":
            if op[1] not in self.slots:
                raise HistoryDisabled(op)
            del self.slots[op[1]]
            gc.collect()
            self.events.add("drop")
            return []
        if kind == "glob":
            if op[1] == "-":
                self.color.set_global_colors_config(None)
                self.global_spec = "D"
            else:
                self.color.set_global_colors_config(self._conf(op[1]))
                self.global_spec = op[1]
            self.events.add("glob")
            return []
        if kind == "f":
            if not self.open:
                raise HistoryDisabled(op)
            return [self._finish(self.open.pop(0))]
        if kind == "hp":
            p = self._obj("hd")
            if self.hcmd is None:
                raise HistoryDisabled(op)
            text = self.hcmd[0]._make_help_text(p.obj)
            return [("hd", (None, self.hcmd[1], "std"), text, "hp", {"kept_ok": True})]
        if kind == "ab":                                    # open, take k lines, abandon (close) the iterator
            p = self._obj(op[1])
            kw, _key = self._how(p, op[2])
            it = iter(p.result(**kw))
            for _ in range(op[3]):
                next(it)
            it.close()
            self.events.add("iterator-abandoned")
            return []
        if kind == "fl":                                    # a cell cut from the result, appended to; result again
            p = self._obj(op[1])
            kw, key = self._how(p, op[2])
            res = p.result(**kw)
            cell = res.fixed_len(len(res))
            cell += "!"
            self.events.add("derived-text-modified")
            return [(op[1], (self.fmt_state.get(op[1]),) + key, str(res), "whole", {"kept_ok": True})]
        if kind == "hnew":
            self.hcmd = (self.hdoc.HCommand(self.hdoc.HCommand._LEVEL_HH), self.global_spec)
            return []
        if kind == "fmt":                                   # change the format of a table, render nothing
            p = self._obj(op[1])
            p.obj.fmt = R.FMT_OPS[op[2]]
            self.fmt_state[op[1]] = op[2]
            self.events.add("fmt-change")
            return []
        name, how = op[1], op[2]
        p = self._obj(name)
        kw, key = self._how(p, how)
        key = (self.fmt_state.get(name),) + key
        if kind == "r":
            return [(name, key, R.text_of(p.result(**kw)), "whole", {"kept_ok": True})]
        if name not in R.ITERABLE:
            raise HistoryDisabled(op)
        if kind == "l":
            return [self._finish([name, key, iter(p.result(**kw)), [], []], via="lines")]
        if kind in ("o", "o0"):
            it = iter(p.result(**kw))
            ent = [name, key, it, [], []]              # ..., kept line objects, their texts taken at once
            if kind == "o":
                ent[3].append(next(it))
                ent[4].append(R.line_text(ent[3][-1]))
            self.open.append(ent)
            return []
        raise ValueError(op)

    def _finish(self, ent, via="iter", leftover_only=False):
        """Exhaust the iterator keeping the line objects; the text is read from the kept objects *after*
        the iterator is exhausted and compared with the texts taken while iterating."""
        name, key, it, keep, imm = ent
        n_before = len(keep)
        for line in it:
            keep.append(line)
            imm.append(R.line_text(line))
        late = [R.line_text(x) for x in keep]
        info = {"kept_ok": late == imm, "leftover": len(keep) - n_before}
        if not info["kept_ok"]:
            info["imm"] = "\n".join(imm)
        return (name, key, "\n".join(late), via, info)

    def finish_all(self):
        out = []
        while self.open:
            out.append(self._finish(self.open.pop(0)))
        return out

    def run(self, ops):
        """Replay a history from a pristine world; -> observations of the last operation and of the
        iterators still open at the end (earlier observations belong to the prefix histories)."""
        self.reset()
        obs = []
        last = len(ops) - 1
        for i, op in enumerate(ops):
            o = self.do(op)
            if i == last:
                obs = o
        suspended = bool(self.open)
        obs = obs + self.finish_all()
        return obs, suspended

    def run_all(self, ops):
        """Like run(), but returns the observations of every operation (reset-completeness self check)."""
        self.reset()
        obs = []
        for op in ops:
            obs.extend(self.do(op))
        obs.extend(self.finish_all())
        return obs

    def run_merge(self, prefix, a, b, order):
        """Two iterators opened after `prefix`, advanced in the given order ('a'/'b' string)."""
        self.reset()
        for op in prefix:
            self.do(op)
        ents = {}
        for tag, (name, how) in (("a", a), ("b", b)):
            p = self._obj(name)
            kw, key = self._how(p, how)
            ents[tag] = [name, (self.fmt_state.get(name),) + key, iter(p.result(**kw)), [], []]
        for tag in order:
            ent = ents[tag]
            ent[3].append(next(ent[2]))
            ent[4].append(R.line_text(ent[3][-1]))
        return [self._finish(ents[tag], via="merge:" + tag) for tag in "ab"]


_WORLD = None


def world():
    global _WORLD
    if _WORLD is None:
        _WORLD = World()
    return _WORLD


# ---------------------------------------------------------------------- E3: interleavings of two iterators
def merge_orders(na, nb, max_switches=None):
    """All strings with na 'a' and nb 'b' (optionally with at most max_switches changes of letter)."""
    out = []

    def rec(prefix, ra, rb, sw):
        if ra == 0 and rb == 0:
            out.append(prefix)
            return
        for ch, r in (("a", ra), ("b", rb)):
            if r == 0:
                continue
            s = sw + (1 if prefix and prefix[-1] != ch else 0)
            if max_switches is not None and s > max_switches:
                continue
            rec(prefix + ch, ra - (ch == "a"), rb - (ch == "b"), s)

    rec("", na, nb, 0)
    return out


# ---------------------------------------------------------------------- E2: BFS with replay and state keys
def bfs_states(initial_key, transitions_of, apply_path, max_depth, expired=lambda: False):
    """Generic explicit-state BFS for machines whose live state cannot be copied.

    initial_key           key of the initial state
    transitions_of(key, path)  -> iterable of transition labels enabled in the state
    apply_path(path)      -> key of the state reached by replaying `path` from scratch (or None: rejected)
    Yields (path, key, is_new) for every transition taken; states are expanded once (first = shortest path).
    """
    seen = {initial_key: ()}
    frontier = [((), initial_key)]
    yield (), initial_key, True
    depth = 0
    while frontier and depth < max_depth:
        nxt = []
        for path, key in frontier:
            for t in transitions_of(key, path):
                if expired():
                    return
                p2 = path + (t,)
                k2 = apply_path(p2)
                if k2 is None:
                    yield p2, None, False
                    continue
                new = k2 not in seen
                if new:
                    seen[k2] = p2
                    nxt.append((p2, k2))
                yield p2, k2, new
        frontier = nxt
        depth += 1
