"""Harness around the real ``ak.llparser`` shared by C01, C02, C03 (DESIGN.md §2 C03, §5 "hooks").

No source hook: the seam is the class ``ak.llparser._StackElement``, whose methods are replaced (class
attributes, from here) by counting wrappers:

    __init__             one call per pushed parse-stack entry (``clone`` also constructs, it is told
                         apart by the caller frame) -> push count, stack depth read from the ``parse``
                         frame (``len(parse_stack)``) once the push count alone could exceed the bound
    next_matched         one call per matched symbol
    switch_to_next_prod  one call per roll-back

Every iteration of the parse loop performs exactly one of these calls (or returns / raises), so their
sum is a step counter.  A parse is aborted (``Abort``, a BaseException) when

    depth  > depth_bound    sound witness of unbounded stack growth, see ``depth_bound``
    steps  > step_budget    safety net only
and a per-grammar wall-clock watchdog (SIGALRM) is the net of last resort, so that no defect of the
implementation can hang a check.
"""

import signal
import sys

from ak import llparser as impl

STEP_BUDGET = 200_000
WATCHDOG_S = 30


class Abort(BaseException):
    def __init__(self, why):
        super().__init__(why)
        self.why = why


class Monitor:
    __slots__ = ("pushes", "matches", "rollbacks", "max_depth", "depth_bound", "step_budget",
                 "suffix_symbols", "suffix_pushes", "seq_symbols", "seq_pushes")

    def __init__(self):
        self.reset(10 ** 9, STEP_BUDGET, ())

    def reset(self, depth_bound, step_budget, suffix_symbols, seq_symbols=()):
        self.seq_symbols = seq_symbols
        self.seq_pushes = []        # (start token position, roll-backs so far) of every sequence-symbol push
        self.pushes = 0
        self.matches = 0
        self.rollbacks = 0
        self.max_depth = 0
        self.depth_bound = depth_bound
        self.step_budget = step_budget
        self.suffix_symbols = suffix_symbols
        self.suffix_pushes = 0

    @property
    def steps(self):
        return self.pushes + self.matches + self.rollbacks

    def sequence_reentered_after_rollback(self):
        """True iff a sequence symbol was entered, the parser rolled back, and a sequence symbol was entered
        again at a later token that lies inside the span the earlier attempt had reached."""
        sp = self.seq_pushes
        for i, (p1, r1) in enumerate(sp):
            reach = max(p for p, r in sp if r == r1)
            for p2, r2 in sp[i + 1:]:
                if r2 > r1 and p1 < p2 <= reach:
                    return True
        return False


MON = Monitor()
_ACTIVE = False
_installed = False
_orig = {}


def install():
    """Replace the three methods of the real _StackElement by counting wrappers (idempotent)."""
    global _installed
    if _installed:
        return
    cls = impl._StackElement
    o_init = cls.__init__
    o_match = cls.next_matched
    o_switch = cls.switch_to_next_prod
    _orig.update(init=o_init, match=o_match, switch=o_switch)
    mon = MON
    getframe = sys._getframe

    def __init__(self, symbol, token_pos, prod_rs):
        o_init(self, symbol, token_pos, prod_rs)
        if not _ACTIVE:
            return
        mon.pushes += 1
        if symbol in mon.suffix_symbols:
            mon.suffix_pushes += 1
        if symbol in mon.seq_symbols:
            mon.seq_pushes.append((token_pos, mon.rollbacks))
        if mon.pushes + mon.matches + mon.rollbacks > mon.step_budget:
            raise Abort("step-budget")
        if mon.pushes > mon.depth_bound:
            # only now can the stack be deeper than the bound: look at the real stack
            f = getframe(1)
            ps = f.f_locals.get("parse_stack")
            if isinstance(ps, list) and f.f_code.co_name == "parse":
                d = len(ps) + 1
                if d > mon.max_depth:
                    mon.max_depth = d
                if d > mon.depth_bound:
                    raise Abort("depth-bound")

    def next_matched(self, value, new_token_pos):
        if _ACTIVE:
            mon.matches += 1
            if mon.pushes + mon.matches + mon.rollbacks > mon.step_budget:
                raise Abort("step-budget")
        return o_match(self, value, new_token_pos)

    def switch_to_next_prod(self):
        if _ACTIVE:
            mon.rollbacks += 1
            if mon.pushes + mon.matches + mon.rollbacks > mon.step_budget:
                raise Abort("step-budget")
        return o_switch(self)

    cls.__init__ = __init__
    cls.next_matched = next_matched
    cls.switch_to_next_prod = switch_to_next_prod
    _installed = True


def depth_bound(parser, n_tokens):
    """Upper bound of the parse-stack depth of any terminating parse of ``n_tokens`` tokens.

    A stack entry is an expansion (symbol, start position).  An entry (Y, p) directly above (X, p)
    means Y is reached from X without consuming a token; in a grammar without left recursion such a
    chain never repeats a symbol, so at most |symbols| entries share a start position, and there are
    n_tokens + 1 positions (``$END$`` included).  ``+2`` twice: the technical ``$START$`` entry and
    head-room.  The parse loop is a deterministic function of (symbol, position, tokens) while an
    entry stays on the stack, so a repeated (symbol, position) pair repeats for ever: exceeding the
    bound is a witness of unbounded growth, not a time-out.
    """
    return (n_tokens + 2) * (len(parser.prods_map) + 2)


class Watchdog:
    """Wall-clock net of last resort around one grammar (constructor + all its parses)."""

    def __init__(self, seconds=WATCHDOG_S):
        self.seconds = seconds
        self.ok = False

    def _fire(self, signum, frame):
        raise Abort("watchdog")

    def __enter__(self):
        try:
            self.prev = signal.signal(signal.SIGALRM, self._fire)
            signal.setitimer(signal.ITIMER_REAL, self.seconds)
            self.ok = True
        except ValueError:       # not in the main thread
            self.ok = False
        return self

    def __exit__(self, *exc):
        if self.ok:
            signal.setitimer(signal.ITIMER_REAL, 0)
            signal.signal(signal.SIGALRM, self.prev)
        return False


_NO_SKIP_ARG = object()


def build(cfg, start, prods, smart, skip=_NO_SKIP_ARG):
    """Real constructor.  -> ("ok", parser) | ("recursive", exc) | ("grammar-error", exc) |
    ("assertion", exc) | ("raised:<Type>", exc) | ("abort:<why>", None)
    An alternative list (SEQ, s1, ...) becomes the template ProdSequence(s1, ...); ``skip`` (a value of
    models.grammar.SKIP_OPTIONS) is handed over as the constructor argument skip_tokens."""
    from models.grammar import is_seq, skip_value
    productions = {x: (impl.ProdSequence(*alts[1:]) if is_seq(alts) else [a if a else None for a in alts])
                   for x, alts in prods}
    kw = {} if skip is _NO_SKIP_ARG else {"skip_tokens": skip_value(skip)}
    if getattr(cfg, "span_matchers", None):
        kw["span_matchers"] = dict(cfg.span_matchers)
    try:
        p = impl.LLParser(cfg.tokenizer_str, productions=productions, synonyms=cfg.synonyms,
                          keywords=cfg.keywords, start_symbol_name=start, smart_factorization=smart, **kw)
    except impl.GrammarIsRecursive as e:
        return "recursive", e
    except impl.GrammarError as e:
        return "grammar-error", e
    except AssertionError as e:
        return "assertion", e
    except Abort as e:
        return "abort:" + e.why, None
    except Exception as e:  # noqa
        return "raised:" + type(e).__name__, e
    return "ok", p


def build_from_dict(cfg, start, productions, smart):
    """Real constructor on a productions dict OBJECT owned by the caller (for construction sequences on
    one dict object that is edited in place).  Same result convention as build()."""
    try:
        p = impl.LLParser(cfg.tokenizer_str, productions=productions, synonyms=cfg.synonyms,
                          keywords=cfg.keywords, start_symbol_name=start, smart_factorization=smart)
    except impl.GrammarIsRecursive as e:
        return "recursive", e
    except impl.GrammarError as e:
        return "grammar-error", e
    except AssertionError as e:
        return "assertion", e
    except Abort as e:
        return "abort:" + e.why, None
    except Exception as e:  # noqa
        return "raised:" + type(e).__name__, e
    return "ok", p


def parse(parser, cfg, toks, bound=None, step_budget=STEP_BUDGET, start_symbol=None, raw_text=None):
    """Real parse of the text made of ``toks`` under the monitor; ``start_symbol`` is handed over as the
    public ``start_symbol_name`` argument of parse (None: the constructor's start symbol).
    -> (kind, payload): ("tree", root) | ("ParsingError", None) | ("LexicalError", None) |
       ("abort:<why>", None) | ("raised:<Type>", repr)"""
    global _ACTIVE
    install()
    suffix = getattr(parser, "_suffix_symbols", ())
    MON.reset(depth_bound(parser, len(toks)) if bound is None else bound, step_budget, suffix,
              getattr(parser, "_seq_symbols", ()))
    _ACTIVE = True
    try:
        if raw_text is not None:
            root = parser.parse(raw_text, do_cleanup=False)
        elif start_symbol is None:
            root = parser.parse(cfg.text(toks), do_cleanup=False)
        else:
            root = parser.parse(cfg.text(toks), do_cleanup=False, start_symbol_name=start_symbol)
    except impl.ParsingError:
        return "ParsingError", None
    except impl.LexicalError:
        return "LexicalError", None
    except Abort as e:
        return "abort:" + e.why, None
    except Exception as e:  # noqa
        return "raised:" + type(e).__name__, repr(e)[:200]
    finally:
        _ACTIVE = False
    return "tree", root


def table_diagnosis(parser, start):
    """Compare the implementation's parse table with the text-book table of *its own* factorized
    grammar; used only to give violations a specific signature.  -> short label."""
    from models.grammar import nullables, ref_table
    try:
        pm = {x: tuple(tuple(r.production) for r in rules) for x, rules in parser.prods_map.items()}
        ref = ref_table(pm, start)
        nul = nullables(pm)
        got = {}
        for (x, t), rules in parser.parse_table.items():
            if rules:
                got[(x, t)] = [pm[x].index(tuple(r.production)) for r in rules]
        spurious_eps = spurious = missing = order = False
        for key in set(ref) | set(got):
            r = ref.get(key, [])
            g = got.get(key, [])
            for i in g:
                if i not in r:
                    if all(s in nul for s in pm[key[0]][i]):
                        spurious_eps = True      # entry of a nullable alternative: comes from FOLLOW
                    else:
                        spurious = True          # entry of a non-nullable alternative: comes from FIRST
            if any(i not in g for i in r):
                missing = True
            if sorted(r) == sorted(g) and g != sorted(g):
                order = True
        if spurious_eps and not (spurious or missing):
            return "follow-set-too-large"
        if spurious and not missing:
            return "first-set-too-large"
        if missing and not (spurious or spurious_eps):
            return "table-entry-missing"
        if missing or spurious or spurious_eps:
            return "table-entries-differ"
        if order:
            return "table-order"
        return "table-as-textbook"
    except Exception:  # noqa
        return "table-not-readable"
