"""Shared machinery of the bounded-exhaustive checks (DESIGN.md §1).

A check module (``/verif/checks/cNN_*.py``) provides

    ID, TITLE, RULE, ASSUMPTIONS, REQUIRED_FEATURES, TECHNIQUE, LEVEL_TEXT,
    LEVEL_NOTE, DESIGN_REF                        -- metadata
    bounds(tier)            -> dict                -- the bounds of this tier (for evidence)
    shards(tier)            -> list                -- picklable shard descriptors (partition of the space)
    run_shard(shard, tier, seed, acc)              -- explores one shard completely, reports into ``acc``
    replay(case, acc)                              -- re-runs exactly one recorded case

Everything a shard learns goes through an ``Acc`` object; the runner merges the
accumulators of all shards, replays violations, writes evidence.
"""

import hashlib
import json
import os
import sys
import time
from collections import Counter

VERIF = os.path.dirname(os.path.dirname(os.path.abspath(__file__)))
REPO = os.path.abspath(os.environ.get("VERIF_REPO", "/repo"))


def bind_repo():
    """Make ``import ak`` resolve to the working tree under test, and prove it."""
    sys.dont_write_bytecode = True
    if REPO in sys.path:
        sys.path.remove(REPO)
    sys.path.insert(0, REPO)
    if VERIF not in sys.path:
        sys.path.insert(1, VERIF)
    import ak  # noqa
    got = os.path.dirname(os.path.dirname(os.path.abspath(ak.__file__)))
    if os.path.realpath(got) != os.path.realpath(REPO):
        raise SystemExit(f"HARNESS-ERROR: ak imported from {got}, expected {REPO}")
    import logging
    logging.disable(logging.CRITICAL)


def jdump(obj):
    return json.dumps(obj, sort_keys=True, default=repr, ensure_ascii=True)


def case_hash(obj):
    return hashlib.sha1(jdump(obj).encode()).hexdigest()[:12]


class Acc:
    """Accumulator for one shard (or one replay)."""

    MAX_VIOL_PER_SIG = 3
    MAX_SAMPLES = 6

    def __init__(self, seed=0, deadline=None):
        self.seed = seed
        self.deadline = deadline
        self.evaluations = 0
        self.nontrivial = 0
        self.states = 0
        self.transitions = 0
        self.traces = 0
        self.features = Counter()
        self.outcomes = Counter()
        self.violations = {}      # signature -> list of violation dicts (smallest kept)
        self.viol_count = Counter()
        self.samples = []
        self.capped = False
        self.extra = {}           # free-form measured numbers; numeric values: max-merged ("max_*") or summed
        self._sample_every = 1

    # -- counting ---------------------------------------------------------
    def case(self, nontrivial=False, features=(), outcome=None, states=1, traces=1):
        """One distinct case (by construction of the enumeration) was explored."""
        self.evaluations += 1
        self.states += states
        self.traces += traces
        if nontrivial:
            self.nontrivial += 1
        for f in features:
            self.features[f] += 1
        if outcome is not None:
            self.outcomes[outcome] += 1

    def feat(self, name, n=1):
        self.features[name] += n

    def trans(self, n=1):
        self.transitions += n

    def outcome(self, o):
        self.outcomes[o] += 1

    def note_max(self, key, value):
        k = "max_" + key
        if value > self.extra.get(k, float("-inf")):
            self.extra[k] = value

    def note_sum(self, key, value=1):
        k = "sum_" + key
        self.extra[k] = self.extra.get(k, 0) + value

    def expired(self):
        if self.deadline is not None and time.time() > self.deadline:
            self.capped = True
            return True
        return False

    # -- samples ----------------------------------------------------------
    def sample(self, case):
        """Offer a case as a sample; a seed dependent subset of bounded size is kept."""
        n = self.evaluations + self.seed
        if len(self.samples) < self.MAX_SAMPLES:
            self.samples.append(case)
        elif n % 9973 == 0:
            self.samples[n // 9973 % self.MAX_SAMPLES] = case

    # -- violations -------------------------------------------------------
    def violation(self, signature, case, message, observed=None, expected=None):
        self.viol_count[signature] += 1
        rec = {"signature": signature, "case": case, "message": message,
               "observed": observed, "expected": expected}
        size = len(jdump(case))
        lst = self.violations.setdefault(signature, [])
        lst.append((size, rec))
        lst.sort(key=lambda t: (t[0], jdump(t[1]["case"])))
        del lst[self.MAX_VIOL_PER_SIG:]

    # -- merging ----------------------------------------------------------
    def export(self):
        return {
            "evaluations": self.evaluations, "nontrivial": self.nontrivial,
            "states": self.states, "transitions": self.transitions, "traces": self.traces,
            "features": dict(self.features), "outcomes": dict(self.outcomes),
            "violations": {s: [r for _, r in l] for s, l in self.violations.items()},
            "viol_count": dict(self.viol_count),
            "samples": self.samples, "capped": self.capped, "extra": self.extra,
        }

    def merge(self, d):
        self.evaluations += d["evaluations"]
        self.nontrivial += d["nontrivial"]
        self.states += d["states"]
        self.transitions += d["transitions"]
        self.traces += d["traces"]
        self.features.update(d["features"])
        self.outcomes.update(d["outcomes"])
        self.viol_count.update(d["viol_count"])
        for s, recs in d["violations"].items():
            lst = self.violations.setdefault(s, [])
            for r in recs:
                lst.append((len(jdump(r["case"])), r))
            lst.sort(key=lambda t: (t[0], jdump(t[1]["case"])))
            del lst[self.MAX_VIOL_PER_SIG:]
        for smp in d["samples"]:
            if len(self.samples) < self.MAX_SAMPLES:
                self.samples.append(smp)
        self.capped = self.capped or d["capped"]
        for k, v in d["extra"].items():
            if k.startswith("max_"):
                self.extra[k] = max(self.extra.get(k, v), v)
            elif k.startswith("sum_"):
                self.extra[k] = self.extra.get(k, 0) + v
            else:
                self.extra[k] = v


def load_known_findings():
    path = os.path.join(VERIF, "known_findings.json")
    if not os.path.exists(path):
        return []
    with open(path) as f:
        return json.load(f)["findings"]
