"""E3 — stateless schedule exploration of real threads under a controlled (baton) scheduler.

DESIGN.md §1.1 (E3), §1.2 (nondeterminism), §2 C16.

What it does
------------
* ``Scheduler`` runs N thread bodies (real ``threading.Thread`` objects executing the real code under
  test) so that **exactly one of them is runnable at any time**: every managed thread owns a semaphore
  and runs only while it holds the baton.  The baton can change hands only at *scheduling points*:

    - ``sys.monitoring`` ``INSTRUCTION`` events (fired *before* a bytecode executes) in the code objects
      registered with ``instrument()`` — either every bytecode of a code object or a chosen subset of
      offsets (``shared_attr_offsets``: the attribute accesses on ``self``);
    - ``sched.point(label)`` called by harness code running inside a managed thread (fake transport);
    - an attempt to take a ``SchedLock`` that is held (the thread becomes *disabled*, it does not spin);
    - the end of a thread.

  (``sys.settrace`` opcode events do not fire on this 3.12.1 build; ``sys.monitoring`` does.)

* A schedule is recorded as its **deviation list** ``[[step, thread], ...]``: at decision ``step`` the
  thread ``thread`` was chosen instead of the default (default = keep running the current thread; if
  it is finished/blocked, the enabled thread with the lowest index).  A deviation taken while the
  current thread was still enabled is a **preemption**.  Executions always run to completion.
  Replaying a deviation list reproduces the execution (``Execution.fingerprint()`` is compared).

* ``explore()`` enumerates *every* schedule with at most ``bound`` preemptions (free switches at
  blocking/termination are branched over without cost), depth-first, each schedule exactly once (a
  child extends its parent's deviation list by one later deviation).  ``shard=(r, m)`` restricts the
  enumeration to the sub-trees whose first deviation after the root's happens at a step ``≡ r (mod m)``
  — a partition of the space by schedule prefix.

* ``ThreadingShim`` stands in for the ``threading`` module inside the module under test
  (``ak.conn_http.threading = SHIM``): its ``Lock``/``RLock`` are known to the scheduler.
  ``acquire(timeout=t)`` (t >= 0) on a *held* lock is an ENVIRONMENT choice point: either the thread blocks
  (disabled until the lock is free) or "the timeout elapsed" (``False`` is returned at once).  The
  answer is part of the schedule (deviation ``[step, -1]``); ``explore(env_bound=k)`` bounds the number of
  "elapsed" answers per execution like preemptions.  ``acquire(blocking=False)`` on a held lock is ``False``.  "No enabled
  thread while some thread is unfinished" is a **deadlock**: reported in ``Execution.deadlock``, the
  execution is unwound by raising ``_Abort`` (a ``BaseException``) in every waiting thread.

Nothing here knows about ak_py.
"""

import copy
import dis
import sys
import threading as _thr

__all__ = ["ModuleState", "point", "UncontrolledBlock", "Scheduler", "Execution", "SchedLock", "ThreadingShim", "SHIM", "instrument", "uninstrument",
           "shared_attr_offsets", "explore", "count_preemptions", "HarnessError"]


class HarnessError(Exception):
    """The harness lost control (never a property violation)."""


class UncontrolledBlock(Exception):
    """A thread outside the scheduler (the harness' sequential phase) would wait forever for a SchedLock
    that nobody is going to release — a deadlock of the code under test, reported by the check."""


class _Abort(BaseException):
    """Raised inside managed threads to unwind an execution that cannot continue."""


ENV_BLOCK, ENV_TIMEOUT = -2, -1      # pseudo "threads" of an environment choice step
_ACTIVE = None          # the Scheduler whose execution is in progress (at most one per process)
_POINTS = {}            # code object -> None (every instruction) | frozenset of offsets
_TOOL = None
_WAIT_S = 60.0


# --------------------------------------------------------------------------- module-level state
class ModuleState:
    """Owns the mutable containers (dict/list/set) that are globals of the given modules or attributes of
    the classes defined in them (nested classes included): ``restore()`` puts back, in place, the contents
    they had when the snapshot was taken.  Called before every execution / history so that state which the
    code under test keeps at module or class level cannot leak from one execution into the next."""

    def __init__(self, *modules):
        self.items = []
        seen = set()

        def scan(holder, modname, depth):
            for name, val in list(vars(holder).items()):
                if name.startswith("__") and name.endswith("__"):
                    continue
                if isinstance(val, type) and getattr(val, "__module__", None) == modname and depth < 4 \
                        and id(val) not in seen:
                    seen.add(id(val))
                    scan(val, modname, depth + 1)
                elif isinstance(val, (dict, list, set)) and id(val) not in seen:
                    seen.add(id(val))
                    try:
                        self.items.append((val, copy.deepcopy(val)))
                    except Exception:  # noqa - not copyable: not owned
                        pass
        for m in modules:
            scan(m, m.__name__, 0)

    def restore(self):
        n = 0
        for live, snap in self.items:
            if live != snap:
                n += 1
                fresh = copy.deepcopy(snap)
                if isinstance(live, list):
                    live[:] = fresh
                else:
                    live.clear()
                    live.update(fresh)
        return n


# --------------------------------------------------------------------------- instrumentation
def _on_instruction(code, offset):
    s = _ACTIVE
    if s is None:
        return None
    i = s._ident2idx.get(_thr.get_ident())
    if i is None or s.aborting:      # aborting: the thread is unwinding, no longer under the baton
        return None
    pts = _POINTS.get(code, False)
    if pts is False:
        return None
    if pts is not None and offset not in pts:
        return None
    s._point(i, code, offset)
    return None


def point(label):
    """Explicit scheduling point for harness code that runs inside a managed thread (e.g. a fake
    transport): the calling thread may lose the baton here, exactly like before a bytecode."""
    s = _ACTIVE
    if s is None:
        return
    i = s._ident2idx.get(_thr.get_ident())
    if i is None or s.aborting:
        return
    s._explicit_point(i, str(label))


def instrument(code_points):
    """code_points: {code object: None | iterable of instruction offsets}.  Idempotent."""
    global _TOOL
    mon = sys.monitoring
    if _TOOL is None:
        tool = mon.DEBUGGER_ID
        if mon.get_tool(tool) is None:
            mon.use_tool_id(tool, "verif-sched")
        elif mon.get_tool(tool) != "verif-sched":
            raise HarnessError(f"sys.monitoring tool id {tool} is taken by {mon.get_tool(tool)}")
        mon.register_callback(tool, mon.events.INSTRUCTION, _on_instruction)
        _TOOL = tool
    for code, pts in code_points.items():
        _POINTS[code] = None if pts is None else frozenset(pts)
        mon.set_local_events(_TOOL, code, mon.events.INSTRUCTION)


def uninstrument():
    global _TOOL
    if _TOOL is None:
        return
    mon = sys.monitoring
    for code in list(_POINTS):
        mon.set_local_events(_TOOL, code, 0)
    _POINTS.clear()
    mon.register_callback(_TOOL, mon.events.INSTRUCTION, None)
    mon.free_tool_id(_TOOL)
    _TOOL = None


def shared_attr_offsets(code, owner=None):
    """Offsets of the instructions that read/write/delete an attribute of the first argument
    (``self``) — the only way code of a method reaches state shared through the object."""
    owner = owner or (code.co_varnames[0] if code.co_argcount else None)
    out = []
    prev = None
    for ins in dis.get_instructions(code):
        if ins.opname in ("LOAD_ATTR", "STORE_ATTR", "DELETE_ATTR", "LOAD_METHOD") and prev is not None \
                and prev.opname.startswith("LOAD_FAST") and prev.argval == owner:
            out.append(ins.offset)
        elif ins.opname in ("STORE_GLOBAL", "DELETE_GLOBAL"):
            out.append(ins.offset)
        prev = ins
    return out


_OPNAMES = {}


def describe_point(label):
    """label = (co_name, offset) or ('start',)/('finish',)/('blocked', lockid) -> text."""
    if not label or not isinstance(label[0], str) or len(label) < 2 or not isinstance(label[1], int) \
            or label[0] in ("blocked",):
        return ":".join(str(x) for x in label)
    return f"{label[0]}+{label[1]}" + (f" {label[2]}" if len(label) > 2 else "")


def _ins_text(code, offset):
    key = (code, offset)
    if key not in _OPNAMES:
        for ins in dis.get_instructions(code):
            _OPNAMES[(code, ins.offset)] = f"{ins.opname} {ins.argrepr}".strip()
    return _OPNAMES.get(key, "?")


# --------------------------------------------------------------------------- locks
class SchedLock:
    """Lock known to the scheduler.  Outside a controlled execution it is a plain flag."""

    _seq = 0

    def __init__(self, reentrant=False):
        self.reentrant = reentrant
        self.owner = None       # thread index, or "ext" for an unmanaged thread
        self.count = 0
        SchedLock._seq += 1
        self.lid = SchedLock._seq

    def _who(self):
        s = _ACTIVE
        if s is None:
            return None, "ext"
        i = s._ident2idx.get(_thr.get_ident())
        return (s, i) if i is not None else (None, "ext")

    def acquire(self, blocking=True, timeout=-1):
        s, me = self._who()
        if s is None:
            if self.owner is None or (self.reentrant and self.owner == me):
                self.owner = me
                self.count += 1
                return True
            if not blocking or (timeout is not None and timeout >= 0):
                return False      # nobody is going to release it: the timeout elapses
            raise UncontrolledBlock("a sequential request would wait forever for a lock that was left held")
        if s.aborting:
            return True
        s.lock_ops += 1
        while self.owner is not None:
            if self.reentrant and self.owner == me:
                self.count += 1
                return True
            if not blocking:
                return False
            if timeout is not None and timeout >= 0 and s._env_timeout(me, self):
                return False
            s._block(me, self)
        self.owner = me
        self.count = 1
        s.held[me] += 1
        return True

    def release(self):
        s, me = self._who()
        if s is not None and s.aborting:
            return
        if self.owner is None:
            raise RuntimeError("release unlocked lock")
        if self.reentrant and self.owner != me:
            raise RuntimeError("cannot release un-acquired lock")
        self.count -= 1
        if self.reentrant and self.count > 0:
            return
        owner = self.owner
        self.owner = None
        self.count = 0
        if s is not None:
            s.lock_ops += 1
            if isinstance(owner, int):
                s.held[owner] -= 1

    def locked(self):
        return self.owner is not None

    def __enter__(self):
        self.acquire()
        return self

    def __exit__(self, *exc):
        self.release()
        return False


class ThreadingShim:
    """Module-like stand-in for ``threading`` inside the module under test."""

    def __init__(self):
        self.locks_created = 0

    def Lock(self):
        self.locks_created += 1
        return SchedLock(False)

    def RLock(self):
        self.locks_created += 1
        return SchedLock(True)

    def __getattr__(self, name):
        return getattr(_thr, name)


SHIM = ThreadingShim()


# --------------------------------------------------------------------------- one execution
class Execution:
    """Everything observed by the scheduler during one controlled execution."""

    __slots__ = ("deviations", "nthreads", "nsteps", "cur", "cur_ok", "enabled", "default", "chosen",
                 "labels", "results", "errors", "deadlock", "error", "preemptions", "preempt_in_cs",
                 "blocked_events", "switches", "lock_ops", "points_per_thread", "obs", "env_points", "env_answers")

    def fingerprint(self):
        return (self.nsteps, tuple(self.chosen), tuple(self.enabled), tuple(map(repr, self.results)),
                tuple(self.errors), repr(self.deadlock), self.error)

    def switch_points(self):
        """Readable list of the places where the baton changed hands."""
        out = []
        for st in range(self.nsteps):
            c, ch = self.cur[st], self.chosen[st]
            if ch in (ENV_BLOCK, ENV_TIMEOUT):
                if ch == ENV_TIMEOUT:
                    out.append(f"step {st}: T{c} acquire(timeout) on held {self.labels[st][1]}: timeout elapsed")
                continue
            if c != ch:
                kind = "preempt" if self.cur_ok[st] else "switch"
                who = "-" if c is None else f"T{c}"
                out.append(f"step {st}: {kind} {who} at {describe_point(self.labels[st])} -> T{ch}")
        return out


class Scheduler:
    def __init__(self, nthreads, deviations=(), max_steps=200000):
        self.n = nthreads
        self.dev = {}
        for st, th in deviations:
            self.dev[int(st)] = int(th)
        self.deviations = [[int(a), int(b)] for a, b in deviations]
        self.max_steps = max_steps
        self._ident2idx = {}
        self.finished = [False] * nthreads
        self.blocked = [None] * nthreads
        self.held = [0] * nthreads
        self.current = None
        self.aborting = False
        self.deadlock = None
        self.error = None
        self.nsteps = 0
        self.t_cur, self.t_ok, self.t_enabled, self.t_default, self.t_chosen, self.t_label = [], [], [], [], [], []
        self.preemptions = 0
        self.preempt_in_cs = 0
        self.blocked_events = 0
        self.switches = 0
        self.lock_ops = 0
        self.points = [0] * nthreads
        self.results = [None] * nthreads
        self.errors = [None] * nthreads
        self._nfin = 0
        self._fin_lock = _thr.Lock()
        self._locks_seen = {}
        self.env_points = 0
        self.env_answers = 0

    # ---- decisions ------------------------------------------------------------------------
    def _lock_name(self, lock):
        """Locks are numbered per execution in the order the scheduler first meets them (deterministic)."""
        return "lock#%d" % self._locks_seen.setdefault(id(lock), len(self._locks_seen) + 1)

    def _enabled(self):
        return tuple(j for j in range(self.n)
                     if not self.finished[j] and (self.blocked[j] is None or self.blocked[j].owner is None))

    def _fail(self, text, cur):
        if self.error is None:
            self.error = text
        self._abort_all(cur)
        raise _Abort()

    def _abort_all(self, cur):
        self.aborting = True
        for j in range(self.n):
            if j != cur and not self.finished[j]:
                self.sems[j].release()

    def _decide(self, cur, cur_ok, label):
        if self.aborting:
            raise _Abort()
        enabled = self._enabled()
        if not enabled:
            if all(self.finished):
                return None
            self.deadlock = {"step": self.nsteps,
                             "waiting": {f"T{j}": f"{self._lock_name(self.blocked[j])} held by "
                                                  f"T{self.blocked[j].owner}"
                                         for j in range(self.n) if not self.finished[j]}}
            self._abort_all(cur)
            raise _Abort()
        step = self.nsteps
        if step >= self.max_steps:
            self._fail(f"step limit {self.max_steps} reached (livelock?)", cur)
        default = cur if cur_ok else enabled[0]
        choice = self.dev.get(step, default)
        if choice not in enabled:
            self._fail(f"schedule not applicable: step {step} asks for T{choice}, enabled {enabled}", cur)
        self.t_cur.append(cur)
        self.t_ok.append(cur_ok)
        self.t_enabled.append(enabled)
        self.t_default.append(default)
        self.t_chosen.append(choice)
        self.t_label.append(label)
        if choice != cur:
            self.switches += 1
            if cur_ok:
                self.preemptions += 1
                if self.held[cur] > 0:
                    self.preempt_in_cs += 1
        self.nsteps = step + 1
        return choice

    def _switch(self, cur, nxt):
        self.current = nxt
        self.blocked[nxt] = None
        self.sems[nxt].release()
        self.sems[cur].acquire()
        if self.aborting:
            raise _Abort()

    def _point(self, i, code, offset):
        if self.current != i:
            self._fail(f"thread T{i} runs while the baton is with T{self.current}", i)
        self.points[i] += 1
        nxt = self._decide(i, True, (code.co_name, offset, _ins_text(code, offset)))
        if nxt != i:
            self._switch(i, nxt)

    def _explicit_point(self, i, label):
        if self.current != i:
            self._fail(f"thread T{i} runs while the baton is with T{self.current}", i)
        self.points[i] += 1
        nxt = self._decide(i, True, (label, 0, "explicit point"))
        if nxt != i:
            self._switch(i, nxt)

    def _env_timeout(self, i, lock):
        """Environment choice point: does the timeout of this acquire elapse?  Default: no (block)."""
        if self.current != i:
            self._fail(f"thread T{i} runs while the baton is with T{self.current}", i)
        if self.aborting:
            raise _Abort()
        step = self.nsteps
        choice = self.dev.get(step, ENV_BLOCK)
        if choice not in (ENV_BLOCK, ENV_TIMEOUT):
            self._fail(f"schedule not applicable: step {step} is a timeout choice, got {choice}", i)
        self.t_cur.append(i)
        self.t_ok.append(False)
        self.t_enabled.append((ENV_BLOCK, ENV_TIMEOUT))
        self.t_default.append(ENV_BLOCK)
        self.t_chosen.append(choice)
        self.t_label.append(("acquire-timeout", self._lock_name(lock)))
        self.nsteps = step + 1
        self.env_points += 1
        if choice == ENV_TIMEOUT:
            self.env_answers += 1
            return True
        return False

    def _block(self, i, lock):
        """Thread i found ``lock`` taken: disabled until it is free and the scheduler picks i again."""
        if self.current != i:
            self._fail(f"thread T{i} runs while the baton is with T{self.current}", i)
        self.blocked[i] = lock
        self.blocked_events += 1
        nxt = self._decide(i, False, ("blocked", self._lock_name(lock)))
        self._switch(i, nxt)

    # ---- threads --------------------------------------------------------------------------
    def _thread_main(self, i, body):
        self._ident2idx[_thr.get_ident()] = i
        self._ready.release()
        self.sems[i].acquire()
        try:
            if not self.aborting:
                try:
                    self.results[i] = body()
                except _Abort:
                    pass
                except BaseException as e:  # noqa - observation, judged by the check
                    self.errors[i] = f"{type(e).__name__}: {e}"
        finally:
            self.finished[i] = True
            try:
                if not self.aborting:
                    nxt = self._decide(i, False, ("finish",))
                    if nxt is not None:
                        self.current = nxt
                        self.blocked[nxt] = None
                        self.sems[nxt].release()
            except _Abort:
                pass
            finally:
                with self._fin_lock:
                    self._nfin += 1
                    last = self._nfin == self.n
                if last:
                    self._done.release()

    def run(self, bodies):
        global _ACTIVE
        if _ACTIVE is not None:
            raise HarnessError("nested controlled executions")
        assert len(bodies) == self.n
        self.sems = [_thr.Semaphore(0) for _ in range(self.n)]
        self._ready = _thr.Semaphore(0)
        self._done = _thr.Semaphore(0)
        threads = [_thr.Thread(target=self._thread_main, args=(i, bodies[i]), daemon=True,
                               name=f"sched-T{i}") for i in range(self.n)]
        _ACTIVE = self
        try:
            for t in threads:
                t.start()
            for _ in threads:
                if not self._ready.acquire(timeout=_WAIT_S):
                    raise HarnessError("managed thread did not start")
            try:
                nxt = self._decide(None, False, ("start",))
                self.current = nxt
                self.sems[nxt].release()
            except _Abort:
                pass
            if not self._done.acquire(timeout=_WAIT_S):
                self.aborting = True
                for s in self.sems:
                    s.release()
                raise HarnessError(f"controlled execution hung (schedule {self.deviations})")
            for t in threads:
                t.join(_WAIT_S)
        finally:
            _ACTIVE = None
        ex = Execution()
        ex.deviations = self.deviations
        ex.nthreads = self.n
        ex.nsteps = self.nsteps
        ex.cur, ex.cur_ok, ex.enabled = self.t_cur, self.t_ok, self.t_enabled
        ex.default, ex.chosen, ex.labels = self.t_default, self.t_chosen, self.t_label
        ex.results, ex.errors = self.results, self.errors
        ex.deadlock, ex.error = self.deadlock, self.error
        ex.preemptions, ex.preempt_in_cs = self.preemptions, self.preempt_in_cs
        ex.blocked_events, ex.switches, ex.lock_ops = self.blocked_events, self.switches, self.lock_ops
        ex.points_per_thread = list(self.points)
        ex.env_points, ex.env_answers = self.env_points, self.env_answers
        ex.obs = None            # free slot for the caller's observations
        if self.dev and not ex.error and max(self.dev) >= self.nsteps and not self.deadlock:
            ex.error = f"schedule not applicable: deviation at step {max(self.dev)} but execution has {self.nsteps} steps"
        return ex


# --------------------------------------------------------------------------- exploration
def count_preemptions(ex):
    return ex.preemptions


def _children(ex, bound, rng=None, min_step=0, env_bound=0):
    """Deviation lists extending ``ex.deviations`` by one later deviation, within the preemption bound."""
    last = max(ex.deviations[-1][0] if ex.deviations else -1, min_step - 1)
    out = []
    base = ex.preemptions
    for st in range(last + 1, ex.nsteps):
        en = ex.enabled[st]
        if len(en) < 2:
            continue
        if en[0] == ENV_BLOCK:
            if ex.env_answers + 1 <= env_bound:
                out.append(ex.deviations + [[st, ENV_TIMEOUT]])
            continue
        cost = 1 if ex.cur_ok[st] else 0
        if base + cost > bound:
            continue
        d = ex.default[st]
        for a in en:
            if a != d:
                out.append(ex.deviations + [[st, a]])
    if rng is not None:
        rng.shuffle(out)
    return out


def explore(run, root, bound, visit, shard=(0, 1), expired=None, rng=None, min_step=0, env_bound=0):
    """Visit every schedule with <= ``bound`` preemptions that extends deviation list ``root``.

    run(deviations) -> Execution ; visit(Execution) is called once per schedule of this shard.
    The root execution itself belongs to shard residue 0.  ``min_step``: decisions before this step are
    fixed by the root (used when the choice of the starting thread is itself a shard coordinate).
    Returns (#executions run, complete?).
    """
    r, m = shard
    ex0 = run(list(root))
    if ex0.error:
        raise HarnessError(f"root schedule {root}: {ex0.error}")
    nrun = 1
    if r == 0:
        visit(ex0)
    stack = [d for d in _children(ex0, bound, rng, min_step, env_bound) if d[-1][0] % m == r]
    stack.reverse()
    while stack:
        if expired is not None and expired():
            return nrun, False
        dev = stack.pop()
        ex = run(dev)
        nrun += 1
        if ex.error:
            raise HarnessError(f"schedule {dev}: {ex.error}")
        visit(ex)
        kids = _children(ex, bound, rng, 0, env_bound)
        kids.reverse()
        stack.extend(kids)
    return nrun, True
